#!/bin/sh
# Offline setup: build the replay crate against /repo (path dependency) and warm Verus.
set -e
cd "$(dirname "$0")"
export CARGO_NET_OFFLINE=true
mkdir -p out evidence
cp /repo/Cargo.lock replay/Cargo.lock 2>/dev/null || true
(cd replay && RUSTFLAGS="--cfg vaporetto_verif" cargo build --release --offline -q) || echo "warning: replay crate did not build (checks still run; counterexample search disabled)"
(cd replay_tantivy && cp /repo/Cargo.lock Cargo.lock 2>/dev/null; cargo build --release --offline -q) >/dev/null 2>&1 || echo "warning: replay_tantivy did not build"
# the command-line tools for the C19/C20 sweeps (build output stays under /verif)
(cd /repo && CARGO_TARGET_DIR="$PWD/../verif/target_cli" cargo build --release --offline -q -p predict -p evaluate -p manipulate_model) >/dev/null 2>&1 || echo "warning: predict/evaluate did not build"
printf 'use vstd::prelude::*;\nverus!{ proof fn warm() ensures 1 + 1 == 2int {} }\nfn main(){}\n' > out/_warm.rs
(cd out && verus _warm.rs >/dev/null 2>&1) || true
echo setup-done
