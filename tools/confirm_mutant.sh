#!/bin/sh
# usage: confirm_mutant.sh <worktree> <patch> <demo-src> <demo-dest-relative> "<demo test command>"
# confirms: demo passes on clean tree, fails with patch; full suite passes with patch. Leaves the worktree clean.
wt=$1; patch=$2; demo=$3; dest=$4; cmd=$5
cd "$wt" || exit 3
export CARGO_TARGET_DIR=$wt/target CARGO_NET_OFFLINE=true
git checkout -q -- . ; 
mkdir -p "$(dirname "$dest")"
case "$demo" in
  *.diff|*.patch) git apply "$demo" || { echo "demo patch does not apply"; exit 3; } ;;
  *) cp "$demo" "$dest" ;;
esac
echo "--- demo on clean tree (must pass)"; sh -c "$cmd" > $wt/confirm_clean.log 2>&1; echo "rc=$?"; grep -E "^test result|panicked|error(\[|:)" $wt/confirm_clean.log | head -5
git apply "$patch" || { echo "patch does not apply"; exit 3; }
echo "--- demo with patch (must fail)"; sh -c "$cmd" > $wt/confirm_mut.log 2>&1; echo "rc=$?"; grep -E "^test result|panicked" $wt/confirm_mut.log | head -5
# full suite with patch but without the demo
case "$demo" in
  *.diff|*.patch) git apply -R "$demo" ;;
  *) rm -f "$dest" ;;
esac
echo "--- full suite with patch (must pass)"; cargo test --workspace --offline > $wt/confirm_suite.log 2>&1; echo "rc=$?"; grep -E "^test result: FAILED|failed" $wt/confirm_suite.log | head -5; grep -c "^test result: ok" $wt/confirm_suite.log
git checkout -q -- . ; git status --short | grep -v out_mut | head
