#!/usr/bin/env python3
"""Run every seeded change (or the ids given on the command line) against its checks and print one line per
(mutant, property). Quick tier, except for the changes listed in THOROUGH (they only show in the thorough tier)."""
import json, os, subprocess, sys, re
ROOT='/verif'
# by default every change is run against the check of its own property (the directory name's prefix)
CHECKS={}
ONLY=set(sys.argv[1:])
THOROUGH={'C13-6'}   # manifests only in builds without tag-prediction (thorough tier of C13)
rows=[]
for d in sorted(os.listdir(ROOT+'/seeded')):
    p=os.path.join(ROOT,'seeded',d,'patch.diff')
    if not os.path.exists(p): continue
    if ONLY and d not in ONLY: continue
    prop=d.split('-')[0]
    if subprocess.run(['git','-C','/repo','diff','--quiet']).returncode!=0:
        print('repo dirty'); sys.exit(3)
    if subprocess.run(['git','-C','/repo','apply',p]).returncode!=0:
        rows.append((d,'-','patch does not apply')); continue
    try:
        for pid in CHECKS.get(prop,[prop]):
            ev=ROOT+'/evidence/%s.json'%pid
            keep=open(ev,'rb').read() if os.path.exists(ev) else None   # evidence must stay the clean tree's
            r=subprocess.run([ROOT+'/check',pid,'--tier','thorough' if d in THOROUGH else 'quick'],cwd=ROOT,stdout=subprocess.PIPE,stderr=subprocess.STDOUT)
            if keep is not None: open(ev,'wb').write(keep)
            out=r.stdout.decode('utf-8','replace')
            kind='ok'
            if r.returncode==1:
                if 'FAILED OBLIGATION: bounded-sweep' in out: kind='sweep'
                elif 'FAILED OBLIGATION' in out: kind='proof'
                elif 'UNDECIDED' in out: kind='undecided->replay'
                if 'no-failing-input-found' in out: kind+=' (no input)'
            elif r.returncode==2: kind='UNDECIDED'
            first=[l for l in out.split('\n') if l.startswith('FAILED OBLIGATION')][:1]
            rows.append((d,pid,'rc=%d %s %s'%(r.returncode,kind,(first[0][18:110] if first else ''))))
            print(rows[-1],flush=True)
    finally:
        subprocess.run(['git','-C','/repo','checkout','--','.'])
json.dump(rows,open(ROOT+'/out/seeded_results%s.json'%('_partial' if ONLY else ''),'w'),indent=1)
