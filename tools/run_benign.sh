#!/bin/sh
# runs every benign diff through the checks of the functions it touches; prints one line per diff. Uses /repo: do not run other checks meanwhile.
cd /verif
while read id props; do
  [ -z "$id" ] && continue
  out=$(tools/try_mutant.sh /verif/benign/$id.diff quick $props 2>&1 | grep "^== " | sed 's/ tier=quick.*//' | cut -c1-60 | tr '\n' ' ')
  echo "$id: $out"
done <<LIST
b1-1 C02 C03
b1-2 C05 C08
b1-3 C05 C03
b1-4 C05 C04
b1-5 C02 C03
b1-6 C05 C08
b2-1 C01 C13
b2-2 C01 C13
b2-3 C06 C08
b2-4 C01 C18
b2-5 C19
b2-6 C15
b3-1 C10
b3-2 C09
b3-3 C12
b3-4 C17
b3-5 C20
b3-6 C20
b4-1 C15
b4-2 C15
b4-3 C15
b4-4 C15
b4-5 C17
b4-6 C17
b4-7 C12
b4-8 C01 C06
b5-1 C05
b5-2 C05 C03
b5-3 C05 C03
b5-4 C05 C04
b5-5 C08 C05
b5-6 C02 C03
b5-7 C04
b5-8 C02
b5-9 C01 C08
b5-10 C10
b6-1 C14 C07
b6-2 C14 C07
b6-3 C13 C01
b6-4 C01 C18
b6-5 C06
b6-6 C06 C08
b6-7 C13 C18
b6-8 C07
b6-9 C16
b6-10 C12
b7-1 C01 C18
b7-2 C05 C08
b7-3 C05 C03
b7-4 C05 C04
b7-5 C02 C03
b7-6 C04
b7-7 C02
b7-8 C01 C13
b7-9 C06 C08
b7-10 C13 C01
b7-11 C06 C18
b7-12 C10
b7-13 C15
b8-1 C01 C13
LIST
