#!/usr/bin/env python3
"""Regenerate contracts/loop_pins.json: the number of loops (after the rewrite rules) of every function under contract,
on /repo's CURRENT working tree. Run it on the unchanged tree after editing a contract file; the checks then answer
UNDECIDED (exit 2) instead of judging a function whose loop structure no longer is the one its invariants were written for."""
import json, os, sys
sys.path.insert(0, os.path.dirname(os.path.dirname(os.path.abspath(__file__))))
os.environ['VERIF_NO_LOOP_PINS'] = '1'
from vlib import extract, props
ROOT = os.path.dirname(os.path.dirname(os.path.abspath(__file__)))
pins = {}
seen = set()
for pid, cfg in sorted(props.PROPS.items()):
    for vc, variant, tag in cfg.get('units', []):
        if (vc, variant) in seen:
            continue
        seen.add((vc, variant))
        unit = extract.parse_vc(os.path.join(ROOT, vc), variant)
        rep = extract.assemble(unit, os.path.join(ROOT, 'out', '_pin.rs'))
        for it in rep['items']:
            if 'pin_key' in it:
                pins[it['pin_key']] = it['n_loops']
os.remove(os.path.join(ROOT, 'out', '_pin.rs'))
json.dump(pins, open(os.path.join(ROOT, 'contracts', 'loop_pins.json'), 'w'), indent=1, sort_keys=True)
print('%d functions pinned, %d with loops' % (len(pins), sum(1 for v in pins.values() if v)))
