#!/usr/bin/env python3
"""dev tool: pretty-print signatures/requires/ensures of functions from a `verus --log vir-simple` dump.
usage: virsig.py <crate-simple.vir> <substring> [...]"""
import re, sys

def tokenize(s):
    i, n = 0, len(s)
    while i < n:
        c = s[i]
        if c.isspace(): i += 1; continue
        if c in '()': yield c; i += 1; continue
        if c == '"':
            j = i + 1
            while s[j] != '"':
                j += 2 if s[j] == '\\' else 1
            yield s[i:j+1]; i = j + 1; continue
        j = i
        while j < n and not s[j].isspace() and s[j] not in '()': j += 1
        yield s[i:j]; i = j

def parse(tokens):
    stack = [[]]
    for t in tokens:
        if t == '(':
            stack.append([])
        elif t == ')':
            x = stack.pop(); stack[-1].append(x)
        else:
            stack[-1].append(t)
    return stack[0]

def kw(node, key):
    if isinstance(node, list):
        for i, x in enumerate(node):
            if x == key and i + 1 < len(node): return node[i+1]
    return None

def typ(t):
    if not isinstance(t, list): return str(t)
    if t and t[0] == 'Typ':
        k = t[1]
        if k == 'Int': 
            r = t[2]
            return {'USize':'usize','Int':'int','Nat':'nat'}.get(r[1], ' '.join(map(str,r[1:]))) if isinstance(r,list) else str(r)
        if k == 'Bool': return 'bool'
        if k == 'TypParam': return t[2].strip('"')
        if k == 'Datatype':
            p = t[2]; name = p[-1] if isinstance(p, list) else p
            args = t[3] if len(t) > 3 else []
            return '%s<%s>' % (name.split('::')[-1], ','.join(typ(a) for a in args)) if args else name.split('::')[-1]
        if k == 'Decorate': return '&' + typ(t[-1]) if 'Ref' in str(t[2]) else typ(t[-1])
        if k == 'Primitive': return str(t[2][1]) + ('<%s>' % ','.join(typ(a) for a in t[3]) if len(t)>3 and t[3] else '')
        if k == 'SpecFn' : return 'spec_fn'
    return '?'

def expr(e, d=0):
    if not isinstance(e, list): return str(e)
    if d > 40: return '...'
    if e and e[0] in ('@', '@@'):
        return expr(e[2], d+1)
    if e and e[0] == '>':
        return expr(e[1:], d+1) if len(e) > 2 else expr(e[1], d+1)
    if not e: return '()'
    h = e[0]
    if h == 'Call':
        tgt = kw(e, ':target'); args = kw(e, ':args') or []
        name = '?'
        if isinstance(tgt, list):
            f = None
            for x in tgt:
                if isinstance(x, list) and x and x[0] == 'Fun': f = x; break
            if f: name = kw(f, ':path') or '?'
            elif tgt[0] == 'CallTarget' and len(tgt) > 1 and tgt[1] == 'FnSpec': name = 'specfn:' + expr(tgt[2], d+1)
        name = str(name).replace('vstd::','')
        return '%s(%s)' % (name, ', '.join(expr(a, d+1) for a in args))
    if h == 'Binary':
        op = e[1]; 
        ops = str(op)
        m = re.search(r"(Add|Sub|Mul|EuclideanDiv|EuclideanMod|Le|Lt|Ge|Gt|Eq|Ne|And|Or|Implies|Xor|BitAnd|BitOr|Shl|Shr|Index)", ops)
        sym = {'Add':'+','Sub':'-','Mul':'*','Le':'<=','Lt':'<','Ge':'>=','Gt':'>','Eq':'==','Ne':'!=','And':'&&','Or':'||','Implies':'==>','EuclideanDiv':'/','EuclideanMod':'%'}.get(m.group(1) if m else '', ops)
        return '(%s %s %s)' % (expr(e[2], d+1), sym, expr(e[3], d+1))
    if h == 'Logical':
        op = str(e[1]); sym = '&&' if 'And' in op else '||' if 'Or' in op else '==>' if 'Implies' in op else op
        return '(%s %s %s)' % (expr(e[2], d+1), sym, expr(e[3], d+1))
    if h == 'Unary':
        return '%s(%s)' % (str(e[1]).replace("'", ''), expr(e[2], d+1))
    if h == 'UnaryOpr':
        return 'opr%s(%s)' % (re.sub(r'\s+',' ',str(e[1]))[:60], expr(e[2], d+1))
    if h in ('ReadPlace',): return expr(e[1], d+1)
    if h == 'Place':
        if e[1] == 'Local': return expr(e[2], d+1)
        if e[1] == 'Field': return expr(e[-1], d+1) + '.' + str(kw(e[2], ':field') if isinstance(e[2], list) else e[2])
        return 'place(%s)' % ' '.join(expr(x, d+1) for x in e[1:])
    if h == 'VarIdent': return e[1].strip('"')
    if h == 'Var': return expr(e[1], d+1)
    if h == 'Const':
        return ' '.join(str(x) for x in e[1:]) if not isinstance(e[1], list) else ' '.join(map(str, e[1][1:]))
    if h == 'Quant':
        binders = kw(e, ':binders') or e[2]
        names = re.findall(r'VarIdent "([^"]+)"', str(binders))
        q = 'forall' if 'Forall' in str(e[1]) else 'exists'
        return '%s|%s| %s' % (q, ','.join(dict.fromkeys(names)), expr(e[-1], d+1))
    if h == 'If':
        return 'if %s {%s} else {%s}' % (expr(e[1], d+1), expr(e[2], d+1), expr(e[3], d+1) if len(e) > 3 else '')
    if h == 'Block':
        return '{ %s }' % '; '.join(expr(x, d+1) for x in e[1:] if x != [] )
    if h == 'tuple': return 'tuple' 
    if h == 'WithTriggers': return expr(e[-1], d+1)
    if h == 'Typ': return typ(e)
    if h == 'UnfinalizedReadKind': return ''
    if h == 'Ctor':
        return 'Ctor(%s)' % ' '.join(expr(x, d+1) for x in e[1:])[:200]
    if h == 'Match':
        return 'match %s {...%s}' % (expr(e[1], d+1), ' '.join(expr(x, d+1) for x in e[2:])[:400])
    if h == 'Choose': return 'choose(...)'
    if isinstance(h, list):
        # (expr typ) pairs
        return expr(h, d+1)
    return '%s[%s]' % (h, ' '.join(expr(x, d+1) for x in e[1:4])[:300])

def main():
    text = open(sys.argv[1]).read()
    pats = sys.argv[2:]
    # find "(Function" blocks cheaply: locate ':name (Fun :path X)' occurrences and the enclosing top-level form
    for m in re.finditer(r':name \(Fun :path ([^\s)]+)\)', text):
        name = m.group(1)
        if not any(p in name for p in pats): continue
        # scan back to the opening '(' of this function node: look for '(@ "' + ... + '(Function' hmm; take forward slice
        start = text.rfind('(Function', 0, m.start())
        if start < 0 or m.start() - start > 400: start = m.start() - 1
        # match parens forward
        depth = 0; i = start; instr = False
        while i < len(text):
            c = text[i]
            if instr:
                if c == '\\': i += 1
                elif c == '"': instr = False
            else:
                if c == '"': instr = True
                elif c == '(': depth += 1
                elif c == ')':
                    depth -= 1
                    if depth <= 0: break
            i += 1
        node = parse(tokenize(text[start:i+1]))
        node = node[0] if node and isinstance(node[0], list) else node
        params = kw(node, ':params') or []
        ps = []
        for p in params:
            pp = p[2] if isinstance(p, list) and p and p[0] in ('@','@@') else p
            nm = kw(pp, ':name'); ty = kw(pp, ':typ')
            ps.append('%s: %s' % (expr(nm), typ(ty)))
        ret = kw(node, ':ret'); 
        rt = ''
        if ret:
            rp = ret[2] if ret[0] in ('@','@@') else ret
            rt = typ(kw(rp, ':typ'))
        print('fn %s(%s) -> %s   [mode %s]' % (name, ', '.join(ps), rt, kw(node, ':mode')))
        for key in (':require', ':ensure', ':decrease'):
            v = kw(node, key)
            if v:
                items = v if key != ':ensure' else v
                for x in (items if isinstance(items, list) else [items]):
                    if x in ('tuple',) or x == []: continue
                    if isinstance(x, list) and x and isinstance(x[0], list):
                        for y in x: print('   %s %s' % (key, expr(y)))
                    else:
                        print('   %s %s' % (key, expr(x)))
        body = kw(node, ':body')
        if body and str(kw(node, ':mode')) == 'Spec':
            print('   body', expr(body)[:1500])
        print()

main()
