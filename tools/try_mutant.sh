#!/bin/sh
# usage: tools/try_mutant.sh <patch.diff> <tier> <PID>...   — applies the patch to /repo, runs the checks, always reverts
diff=$1; tier=$2; shift 2
cd /repo || exit 3
if ! git diff --quiet; then echo "/repo has uncommitted changes"; exit 3; fi
git apply "$diff" || { echo "patch does not apply"; exit 3; }
cd /verif
for p in "$@"; do
  ./check $p --tier $tier > out/logs/mut_$p.log 2>&1; rc=$?
  echo "== $p rc=$rc: $(grep -E '^(VIOLATION|OK|UNDECIDED|KNOWN)' out/logs/mut_$p.log | head -3 | tr '\n' ' ')"
  grep -E '^FAILED OBLIGATION|^counterexample' out/logs/mut_$p.log | head -4 | cut -c1-300
done
git -C /repo checkout -- .
git -C /repo status --short | head -3
