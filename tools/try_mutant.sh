#!/bin/sh
# usage: tools/try_mutant.sh <patch.diff> <tier> <PID>...   — applies the patch to /repo, runs the checks, always reverts
diff=$1; tier=$2; shift 2
cd /repo || exit 3
if ! git diff --quiet; then echo "/repo has uncommitted changes"; exit 3; fi
git apply "$diff" || { echo "patch does not apply"; exit 3; }
cd /verif
mkdir -p out/evidence_backup
for p in "$@"; do
  # the evidence files in /verif/evidence must come from runs on the unchanged tree: keep them across this run
  cp evidence/$p.json out/evidence_backup/$p.json 2>/dev/null
  ./check $p --tier $tier > out/logs/mut_$p.log 2>&1; rc=$?
  cp evidence/$p.json out/logs/mut_$p.evidence.json 2>/dev/null
  cp out/evidence_backup/$p.json evidence/$p.json 2>/dev/null
  echo "== $p rc=$rc: $(grep -E '^(VIOLATION|OK|UNDECIDED|KNOWN)' out/logs/mut_$p.log | head -3 | tr '\n' ' ')"
  grep -E '^FAILED OBLIGATION|^counterexample' out/logs/mut_$p.log | head -4 | cut -c1-300
done
git -C /repo checkout -- .
git -C /repo status --short | head -3
