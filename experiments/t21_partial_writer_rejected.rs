use vstd::prelude::*;
use std::borrow::Cow;
verus! {
#[derive(Clone, Copy, PartialEq, Eq, Debug, Structural)]
#[repr(u8)]
pub enum CharacterBoundary { NotWordBoundary = 0, WordBoundary = 1, Unknown = 2 }
pub struct Sentence<'a, 'b> {
    pub text: Cow<'a, str>,
    pub boundaries: Vec<CharacterBoundary>,
    pub tags: Vec<Option<Cow<'b, str>>>,
    pub n_tags: usize,
}
impl<'a, 'b> Sentence<'a, 'b> {
    pub fn write_partial_annotation_text(&self, buf: &mut String) {
        buf.clear();
        let mut char_iter = self.text.chars();
        buf.push(char_iter.next().unwrap());
        if self.n_tags != 0 {
            let mut tag_iter = self.tags.chunks_exact(self.n_tags);
            let ts = tag_iter.next().unwrap();
            for tag in &ts[..ts.iter().rposition(|x| x.is_some()).map_or(0, |x| x + 1)] {
                buf.push('/');
                if let Some(tag) = tag {
                    buf.push_str(tag);
                }
            }
        } else {
            for (c, b) in char_iter.zip(&self.boundaries) {
                buf.push(match *b {
                    CharacterBoundary::NotWordBoundary => '-',
                    CharacterBoundary::WordBoundary => '|',
                    CharacterBoundary::Unknown => ' ',
                });
                buf.push(c);
            }
        }
    }
}
}
fn main() {}
