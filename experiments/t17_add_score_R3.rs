use vstd::prelude::*;
verus! {

pub const WEIGHT_FIXED_LEN: usize = 8;
pub type I32Simd = [i32; WEIGHT_FIXED_LEN];

pub enum WeightVector {
    Variable(Vec<i32>),
    Fixed(I32Simd),
}

pub struct PositionalWeight<W> {
    pub offset: i16,
    pub weight: W,
}

pub open spec fn wv_seq(w: WeightVector) -> Seq<i32> {
    match w { WeightVector::Variable(v) => v@, WeightVector::Fixed(a) => a@ }
}
// contribution of weight vector w placed at position p to slot j
pub open spec fn contrib(w: Seq<i32>, p: int, j: int) -> int {
    if p <= j < p + w.len() { w[j - p] as int } else { 0 }
}

impl PositionalWeight<WeightVector> {
    pub fn add_score(&self, end: isize, ys: &mut [i32])
        requires
            -0x10000 <= end < 0x7fff_0000,
            old(ys)@.len() < 0x7fff_0000,
            wv_seq(self.weight).len() < 0x10000,
            forall|j: int| 0 <= j < old(ys)@.len() ==> i32::MIN <= #[trigger] old(ys)@[j] + contrib(wv_seq(self.weight), end + self.offset, j) <= i32::MAX,
            self.weight is Fixed ==> 0 <= end + self.offset && end + self.offset + 8 <= old(ys)@.len(),
        ensures
            final(ys)@.len() == old(ys)@.len(),
            forall|j: int| 0 <= j < old(ys)@.len() ==> #[trigger] final(ys)@[j] == old(ys)@[j] + contrib(wv_seq(self.weight), end + self.offset, j),
    {
        let pos = end + isize::from(self.offset);
        match &self.weight {
            WeightVector::Variable(w) => {
                if pos >= 0 {
                    let __b = pos as usize;
                    if __b <= ys.len() {
                    let __n = (ys.len() - __b).min(w.len());
                    for __i in 0..__n
                        invariant
                            __b == pos, pos == end + self.offset, __b + __n <= ys@.len(), __n <= w.len(), ys@.len() == old(ys)@.len(),
                            w@ == wv_seq(self.weight),
                            __n == w.len() || __b + __n == ys@.len(),
                            forall|j: int| 0 <= j < old(ys)@.len() ==> i32::MIN <= #[trigger] old(ys)@[j] + contrib(w@, pos as int, j) <= i32::MAX,
                            forall|j: int| 0 <= j < ys@.len() ==> #[trigger] ys@[j] == (if __b <= j < __b + __i { old(ys)@[j] + contrib(w@, pos as int, j) } else { old(ys)@[j] as int }),
                    {
                        assert(old(ys)@[__b + __i] + contrib(w@, pos as int, __b + __i) == old(ys)@[__b + __i] + w@[__i as int]);
                        ys[__b + __i] += w[__i];
                    }
                    } else { assume(false); }
                } else if let Some(xs) = w.get((-pos) as usize..) {
                    let __n = ys.len().min(xs.len());
                    for __i in 0..__n
                        invariant
                            pos < 0, pos == end + self.offset, __n <= ys@.len(), __n <= xs@.len(), ys@.len() == old(ys)@.len(),
                            w@ == wv_seq(self.weight), (-pos) <= w@.len(), xs@ == w@.subrange(-pos as int, w@.len() as int),
                            __n == xs@.len() || __n == ys@.len(),
                            forall|j: int| 0 <= j < old(ys)@.len() ==> i32::MIN <= #[trigger] old(ys)@[j] + contrib(w@, pos as int, j) <= i32::MAX,
                            forall|j: int| 0 <= j < ys@.len() ==> #[trigger] ys@[j] == (if j < __i { old(ys)@[j] + contrib(w@, pos as int, j) } else { old(ys)@[j] as int }),
                    {
                        assert(contrib(w@, pos as int, __i as int) == xs@[__i as int]);
                        ys[__i] += xs[__i];
                    }
                }
            }
            WeightVector::Fixed(w) => {
                let __b = pos as usize;
                for __i in 0..WEIGHT_FIXED_LEN
                    invariant
                        __b == pos, pos == end + self.offset, 0 <= pos, __b + 8 <= ys@.len(), ys@.len() == old(ys)@.len(),
                        w@ == wv_seq(self.weight), w@.len() == 8,
                        forall|j: int| 0 <= j < old(ys)@.len() ==> i32::MIN <= #[trigger] old(ys)@[j] + contrib(w@, pos as int, j) <= i32::MAX,
                        forall|j: int| 0 <= j < ys@.len() ==> #[trigger] ys@[j] == (if __b <= j < __b + __i { old(ys)@[j] + contrib(w@, pos as int, j) } else { old(ys)@[j] as int }),
                {
                    assert(contrib(w@, pos as int, __b + __i) == w@[__i as int]);
                    ys[__b + __i] += w[__i];
                }
            }
        }
    }
}

} // verus!
fn main() {}
