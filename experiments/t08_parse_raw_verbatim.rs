use vstd::prelude::*;
verus! {

#[derive(Clone, Copy, PartialEq, Eq, Debug, Structural)]
#[repr(u8)]
pub enum CharacterBoundary {
    NotWordBoundary = 0,
    WordBoundary = 1,
    Unknown = 2,
}

#[derive(Debug, Clone, Copy, Hash, PartialEq, Eq)]
#[repr(u8)]
pub enum CharacterType {
    Digit = 1,
    Roman = 2,
    Hiragana = 3,
    Katakana = 4,
    Kanji = 5,
    Other = 6,
}

impl CharacterType {
    pub fn get_type(c: char) -> Self {
        match u32::from(c) {
            0x30..=0x39 | 0xFF10..=0xFF19 => Self::Digit,
            0x41..=0x5A | 0x61..=0x7A | 0xFF21..=0xFF3A | 0xFF41..=0xFF5A => Self::Roman,
            0x3040..=0x3096 => Self::Hiragana,
            0x30A0..=0x30FA | 0x30FC..=0x30FF | 0xFF66..=0xFF9F => Self::Katakana,
            0x3400..=0x4DBF          // CJK Unified Ideographs Extension A
                | 0x4E00..=0x9FFF    // CJK Unified Ideographs
                | 0xF900..=0xFAFF    // CJK Compatibility Ideographs
                | 0x20000..=0x2A6DF  // CJK Unified Ideographs Extension B
                | 0x2A700..=0x2B73F  // CJK Unified Ideographs Extension C
                | 0x2B740..=0x2B81F  // CJK Unified Ideographs Extension D
                | 0x2B820..=0x2CEAF  // CJK Unified Ideographs Extension E
                | 0x2F800..=0x2FA1F  // CJK Compatibility Ideographs Supplement
                => Self::Kanji,
            _ => Self::Other,
        }
    }
}

    fn parse_raw(
        text: &str,
        char_types: &mut Vec<u8>,
        boundaries: &mut Vec<CharacterBoundary>,
        str_to_char_pos: &mut Vec<usize>,
        char_to_str_pos: &mut Vec<usize>,
    ) -> Result<(), ()> {
        char_types.clear();
        boundaries.clear();
        str_to_char_pos.clear();
        char_to_str_pos.clear();
        char_to_str_pos.push(0);
        let mut pos = 0;
        for c in text.chars() {
            if c == '\0' {
                return Err(());
            }
            char_types.push(CharacterType::get_type(c) as u8);
            pos += c.len_utf8();
            char_to_str_pos.push(pos);
        }
        if char_types.is_empty() {
            return Err(());
        }
        str_to_char_pos.resize(pos + 1, 0);
        for i in 0..char_to_str_pos.len() { let pos = char_to_str_pos[i];
            str_to_char_pos[pos] = i;
        }
        boundaries.resize(char_types.len() - 1, CharacterBoundary::Unknown);
        Ok(())
    }

} // verus!
fn main() {}
