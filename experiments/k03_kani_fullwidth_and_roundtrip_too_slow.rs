extern crate alloc;
#[cfg(kani)]
mod proofs {
    use vaporetto::{CharacterBoundary, Sentence};
    use vaporetto_rules::{string_filters::KyteaFullwidthFilter, StringFilter};

    #[kani::proof]
    #[kani::unwind(6)]
    fn fullwidth_per_char() {
        let c: char = kani::any();
        let mut b = [0u8; 4];
        let s: &str = c.encode_utf8(&mut b);
        let out = KyteaFullwidthFilter.filter(s);
        let mut it = out.chars();
        let d = it.next();
        assert!(d.is_some());
        assert!(it.next().is_none());
        let d = d.unwrap();
        // idempotent
        let mut b2 = [0u8; 4];
        let out2 = KyteaFullwidthFilter.filter(d.encode_utf8(&mut b2));
        let mut it2 = out2.chars();
        assert!(it2.next() == Some(d));
        assert!(it2.next().is_none());
    }

    fn stub_format(_a: core::fmt::Arguments<'_>) -> String { String::new() }

    #[kani::proof]
    #[kani::unwind(12)]
    #[kani::stub(alloc::fmt::format, stub_format)]
    fn partial_roundtrip_tagchar() {
        let k: u8 = kani::any();
        kani::assume(k < 6);
        let tag = match k { 0 => "-", 1 => "|", 2 => "/", 3 => " ", 4 => "\\", _ => "x" };
        let mut s = Sentence::from_raw("ab").unwrap();
        s.reset_tags(1);
        s.tags_mut()[0] = Some(tag.to_string().into());
        s.boundaries_mut()[0] = CharacterBoundary::WordBoundary;
        let mut buf = String::new();
        s.write_partial_annotation_text(&mut buf);
        let r = Sentence::from_partial_annotation(&buf);
        assert!(r.is_ok());
        let s2 = r.unwrap();
        assert!(s2.as_raw_text() == "ab");
        assert!(s2.n_tags() == 1);
        assert!(s2.tags()[0].as_deref() == Some(tag));
    }
}
