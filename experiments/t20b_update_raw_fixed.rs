use vstd::prelude::*;
use std::borrow::Cow;
verus! {

#[derive(Clone, Copy, PartialEq, Eq, Debug, Structural)]
#[repr(u8)]
pub enum CharacterBoundary { NotWordBoundary = 0, WordBoundary = 1, Unknown = 2 }

pub struct Predictor {}
pub struct VaporettoError {}

pub struct Sentence<'a, 'b> {
    pub text: Cow<'a, str>,
    pub char_types: Vec<u8>,
    pub boundaries: Vec<CharacterBoundary>,
    pub boundary_scores: Vec<i32>,
    pub score_padding: usize,
    pub char_pma_states: Vec<u32>,
    pub type_pma_states: Vec<u32>,
    pub tags: Vec<Option<Cow<'b, str>>>,
    pub tag_scores: Vec<Option<(&'b [Vec<String>], Vec<i32>)>>,
    pub n_tags: usize,
    pub predictor: Option<&'b Predictor>,
    pub str_to_char_pos: Vec<usize>,
    pub char_to_str_pos: Vec<usize>,
}

impl<'a, 'b> Sentence<'a, 'b> {
    pub open spec fn shape_wf(&self) -> bool {
        &&& self.char_types@.len() >= 1
        &&& self.boundaries@.len() + 1 == self.char_types@.len()
        &&& self.tags@.len() == self.n_tags * self.char_types@.len()
    }

    #[verifier::external_body]
    fn parse_raw(
        text: &str,
        char_types: &mut Vec<u8>,
        boundaries: &mut Vec<CharacterBoundary>,
        str_to_char_pos: &mut Vec<usize>,
        char_to_str_pos: &mut Vec<usize>,
    ) -> (r: Result<(), VaporettoError>)
        ensures r is Ok ==> final(char_types)@.len() >= 1 && final(boundaries)@.len() + 1 == final(char_types)@.len()
    { unimplemented!() }

    fn set_default(&mut self)
        ensures final(self).shape_wf(), final(self).n_tags == 0,
    {
        self.text = Cow::Borrowed(" ");
        self.char_types.clear();
        self.char_types.push(6);
        self.boundaries.clear();
        self.boundary_scores.clear();
        self.score_padding = 0;
        self.char_pma_states.clear();
        self.type_pma_states.clear();
        self.tags.clear();
        self.n_tags = 0;
        self.predictor.take();
        self.str_to_char_pos.clear();
        self.str_to_char_pos.push(0);
        self.str_to_char_pos.push(1);
        self.char_to_str_pos.clear();
        self.char_to_str_pos.push(0);
        self.char_to_str_pos.push(1);
    }

    pub fn update_raw(&mut self, text: impl Into<Cow<'a, str>>) -> (r: Result<(), VaporettoError>)
        ensures final(self).shape_wf(), final(self).tags@.len() == 0, final(self).n_tags == 0,
    {
        self.text = text.into();
        if let Err(e) = Self::parse_raw(
            &self.text,
            &mut self.char_types,
            &mut self.boundaries,
            &mut self.str_to_char_pos,
            &mut self.char_to_str_pos,
        ) {
            self.set_default();
            return Err(e);
        }
        self.boundary_scores.clear();
        self.score_padding = 0;
        self.char_pma_states.clear();
        self.type_pma_states.clear();
        self.predictor.take();
        self.tags.clear();
        self.n_tags = 0;
        Ok(())
    }
}

} // verus!
fn main() {}
