use vaporetto::*;
use std::panic::catch_unwind;
fn main() {
    // C02
    let mut s = Sentence::from_raw("abcdef").unwrap();
    use CharacterBoundary::*;
    s.boundaries_mut().copy_from_slice(&[Unknown, WordBoundary, Unknown, WordBoundary, NotWordBoundary]);
    let r = catch_unwind(|| { s.iter_tokens().map(|t| (t.start(), t.end(), t.surface().to_string())).collect::<Vec<_>>() });
    println!("C02 tokens [U,W,U,W,N]: {:?}", r);
    // C05
    let r = catch_unwind(|| Sentence::from_tokenized("\\").is_ok());
    println!("C05 from_tokenized lone backslash: {:?}", r.map_err(|_| "PANIC"));
    // C05/C08 stale n_tags
    let r = catch_unwind(|| {
        let mut s = Sentence::from_tokenized("a/x b/y").unwrap();
        s.update_raw("cd").unwrap();
        let mut buf = String::new();
        println!("n_tags after update_raw = {} tags.len = {}", s.n_tags(), s.tags().len());
        s.boundaries_mut()[0] = WordBoundary;
        s.write_tokenized_text(&mut buf);
        buf
    });
    println!("C08 stale n_tags: {:?}", r.map_err(|_| "PANIC"));
    // C04
    let s = Sentence::from_tokenized("猫/名詞-普通 だ").unwrap();
    let mut buf = String::new();
    s.write_partial_annotation_text(&mut buf);
    println!("C04 written: {:?}", buf);
    let r = Sentence::from_partial_annotation(&buf);
    match r { Ok(s2) => { println!("C04 reparsed raw={:?} tags={:?}", s2.as_raw_text(), s2.tags()); }, Err(e) => println!("C04 reparse error {e}") }
    // C07
    let r = catch_unwind(|| Model::read_slice(b"short").is_err());
    println!("C07 read_slice short: {:?}", r.map_err(|_| "PANIC"));
}
