use vstd::prelude::*;
verus! {

fn add_vec(ys: &mut Vec<i32>, w: &Vec<i32>)
    requires old(ys).len() == w.len(), 
      forall|i: int| 0 <= i < w.len() ==> -1000 < #[trigger] old(ys)[i] < 1000,
      forall|i: int| 0 <= i < w.len() ==> -1000 < #[trigger] w[i] < 1000,
    ensures final(ys).len() == old(ys).len(), forall|i: int| 0 <= i < w.len() ==> final(ys)[i] == old(ys)[i] + w[i],
{
    for (y, x) in it: ys.iter_mut().zip(w)
        invariant
            it.index@ <= w.len(), old(ys).len() == w.len(),
      forall|i: int| 0 <= i < w.len() ==> -1000 < #[trigger] old(ys)[i] < 1000,
      forall|i: int| 0 <= i < w.len() ==> -1000 < #[trigger] w[i] < 1000,
            forall|i: int| 0 <= i < it.index@ ==> *final(it.history@[i].0) == old(ys)[i] + w[i],
    {
        assert(*x == w[it.index@]);
        assert(*y == old(ys)[it.index@]);
        assert(-1000 < *y < 1000);
        assert(-1000 < *x < 1000);
        *y += *x;
    }
}

} // verus!
fn main() {}
