#[cfg(kani)]
mod proofs {
    use vaporetto::{CharacterBoundary, Sentence};

    #[kani::proof]
    #[kani::unwind(8)]
    fn token_iter_small() {
        let mut s = Sentence::from_raw("abcd").unwrap();
        let bs = s.boundaries_mut();
        for i in 0..3 {
            let k: u8 = kani::any();
            kani::assume(k < 3);
            bs[i] = match k { 0 => CharacterBoundary::NotWordBoundary, 1 => CharacterBoundary::WordBoundary, _ => CharacterBoundary::Unknown };
        }
        let mut it = s.iter_tokens();
        let mut prev_end = 0usize;
        while let Some(t) = it.next() {
            assert!(t.start() >= prev_end);
            assert!(t.end() > t.start());
            assert!(t.end() <= 4);
            prev_end = t.end();
        }
    }
}
