use vstd::prelude::*;
use vstd::std_specs::iter::IteratorSpec;
verus! {

pub assume_specification<T>[ Option::<T>::replace ](o: &mut Option<T>, v: T) -> (r: Option<T>)
    ensures *final(o) == Some(v), r == *old(o);

fn strs(input: &str) -> (r: Result<usize, ()>)
{
    let mut tag_str: Option<String> = None;
    let mut tags_tmp: Vec<Vec<String>> = vec![];
    let mut text = String::new();
    let mut escape = false;
    let mut char_types: Vec<u8> = vec![];
    let mut __it = input.chars();
    loop
        invariant
            tag_str is Some ==> tags_tmp.len() >= 1,
            __it.obeys_prophetic_iter_laws(),
            tags_tmp.len() == char_types.len(), (text@.len() == 0) == (char_types.len() == 0),
        decreases __it.decrease(),
    {
        match __it.next() { None => break, Some(c) => {
            match (escape, c) {
                (false, '\\') => { escape = true; }
                (false, '/') => {
                    if text.is_empty() { return Err(()); }
                    if let Some(tag) = tag_str.replace(String::new()) {
                        tags_tmp.last_mut().unwrap().push(tag);
                    }
                }
                (_, _) => {
                    escape = false;
                    if let Some(tag) = tag_str.as_mut() {
                        tag.push(c);
                        continue;
                    }
                    text.push(c);
                    char_types.push(1);
                    tags_tmp.push(vec![]);
                }
            }
        }}
    }
    if let Some(tag) = tag_str.take() {
        tags_tmp.last_mut().unwrap().push(tag);
    }
    Ok(tags_tmp.len() / char_types.len())
}

} // verus!
fn main() {}
