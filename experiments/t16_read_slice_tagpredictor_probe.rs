use vstd::prelude::*;
use std::borrow::Cow;
verus! {

pub assume_specification<T>[ Option::<T>::replace ](o: &mut Option<T>, v: T) -> (r: Option<T>)
    ensures *final(o) == Some(v), r == *old(o);

exec const MODEL_MAGIC: &'static [u8] ensures MODEL_MAGIC@.len() == 25 { b"VaporettoTokenizer 0.5.0\n" }

pub struct ModelData { pub x: u8 }
pub struct Model(pub ModelData);
pub struct VaporettoError {}

#[verifier::external_body]
fn decode_from_slice(s: &[u8]) -> (r: Result<(ModelData, usize), VaporettoError>)
    ensures r matches Ok((_, size)) ==> size <= s.len()
{ unimplemented!() }

#[verifier::external_body]
fn invalid_model(msg: &str) -> VaporettoError { unimplemented!() }

    pub fn read_slice(slice: &[u8]) -> Result<(Model, &[u8]), VaporettoError> {
        if &slice[..MODEL_MAGIC.len()] != MODEL_MAGIC {
            return Err(invalid_model("model version mismatch"));
        }
        let (data, size) = decode_from_slice(&slice[MODEL_MAGIC.len()..])?;
        Ok((Model(data), &slice[MODEL_MAGIC.len() + size..]))
    }

struct TagPredictor {
    tags: Vec<Vec<String>>,
}

impl TagPredictor {
    pub fn predict<'a>(&'a self, scores: &[i32], tags: &mut [Option<Cow<'a, str>>]) {
        let mut offset = 0;
        for (tag_cands, tag) in self.tags.iter().zip(tags) {
            if tag_cands.len() >= 2 {
                let mut idx = 0;
                let mut max_score = i32::MIN;
                let __s = &scores[offset..offset + tag_cands.len()]; for i in 0..__s.len() { let s = __s[i];
                    if s > max_score {
                        idx = i;
                        max_score = s;
                    }
                }
                tag.replace(Cow::Borrowed(&tag_cands[idx]));
                offset += tag_cands.len();
            } else {
                *tag = tag_cands.first().map(|t| Cow::Borrowed(t.as_str()));
            }
        }
    }
}

fn strs(input: &str) -> usize {
    let mut tag_str: Option<String> = None;
    let mut tags_tmp: Vec<Vec<String>> = vec![];
    let mut text = String::new();
    for c in input.chars() {
        if c == '/' {
            if let Some(tag) = tag_str.replace(String::new()) {
                tags_tmp.last_mut().unwrap().push(tag);
            }
        } else if let Some(tag) = tag_str.as_mut() {
            tag.push(c);
            continue;
        } else {
            text.push(c);
            tags_tmp.push(vec![]);
        }
    }
    if let Some(tag) = tag_str.take() {
        tags_tmp.last_mut().unwrap().push(tag);
    }
    let n_tags = 0usize;
    if text.is_empty() { 0 } else { n_tags }
}

} // verus!
fn main() {}
