use vstd::prelude::*;
use vstd::std_specs::iter::IteratorSpec;
verus! {

fn add_vec(ys: &mut Vec<i32>, w: &Vec<i32>, a: usize)
    requires a + w.len() <= old(ys).len(), 
      forall|i: int| 0 <= i < old(ys).len() ==> -1000 < #[trigger] old(ys)[i] < 1000,
      forall|i: int| 0 <= i < w.len() ==> -1000 < #[trigger] w[i] < 1000,
    ensures final(ys).len() == old(ys).len(), 
       forall|i: int| 0 <= i < w.len() ==> final(ys)[a + i] == old(ys)[a + i] + w[i],
       forall|i: int| 0 <= i < a ==> final(ys)[i] == old(ys)[i],
       forall|i: int| a + w.len() <= i < old(ys).len() ==> final(ys)[i] == old(ys)[i],
{
    for (y, x) in it: ys[a..].iter_mut().zip(w)
        invariant
            it.index@ <= w.len(), a + w.len() <= old(ys).len(),
      forall|i: int| 0 <= i < old(ys).len() ==> -1000 < #[trigger] old(ys)[i] < 1000,
      forall|i: int| 0 <= i < w.len() ==> -1000 < #[trigger] w[i] < 1000,
            forall|i: int| 0 <= i < it.index@ ==> *final(it.history@[i].0) == old(ys)[a + i] + w[i],
    {
        assert(*x == w[it.index@]);
        assert(*y == old(ys)[a + it.index@]);
        *y += *x;
    }
}

} // verus!
fn main() {}
