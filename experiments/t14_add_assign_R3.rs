use vstd::prelude::*;
verus! {

pub assume_specification<T>[ <[T]>::rotate_right ](s: &mut [T], k: usize)
    requires k <= old(s)@.len(),
    ensures
        final(s)@ == old(s)@.subrange(old(s)@.len() - k, old(s)@.len() as int) + old(s)@.subrange(0, old(s)@.len() - k);

pub struct PositionalWeight {
    pub offset: i16,
    pub weight: Vec<i32>,
}

pub open spec fn pw_at(offset: int, w: Seq<i32>, k: int) -> int {
    if offset <= k < offset + w.len() { w[k - offset] as int } else { 0 }
}

impl PositionalWeight {
    pub open spec fn at(&self, k: int) -> int { pw_at(self.offset as int, self.weight@, k) }

    fn add_assign(&mut self, other: &Self)
        requires
            -0x4000 <= old(self).offset < 0x4000, -0x4000 <= other.offset < 0x4000,
            old(self).weight.len() < 0x10000, other.weight.len() < 0x10000,
            forall|k: int| i32::MIN <= #[trigger] old(self).at(k) + other.at(k) <= i32::MAX,
        ensures
            forall|k: int| #[trigger] final(self).at(k) == old(self).at(k) + other.at(k),
            final(self).offset == if old(self).offset < other.offset { old(self).offset } else { other.offset },
    {
        let new_offset = self.offset.min(other.offset);
        let shift = usize::try_from(self.offset - new_offset).unwrap();
        let new_size = (shift + self.weight.len())
            .max(usize::try_from(other.offset - new_offset).unwrap() + other.weight.len());
        self.weight.resize(new_size, 0);
        self.weight.rotate_right(shift);
        let ghost w1 = self.weight@;
        assert forall|k: int| pw_at(new_offset as int, w1, k) == old(self).at(k) by { }
        let __base = usize::try_from(other.offset - new_offset).unwrap();
        let __n = (self.weight.len() - __base).min(other.weight.len());
        for __i in 0..__n
            invariant
                __base == other.offset - new_offset,
                __n == other.weight.len(), __base + __n <= w1.len(), self.weight.len() == w1.len(),
                forall|k: int| i32::MIN <= #[trigger] old(self).at(k) + other.at(k) <= i32::MAX,
                forall|k: int| pw_at(new_offset as int, w1, k) == old(self).at(k),
                forall|j: int| 0 <= j < w1.len() ==> self.weight@[j] == (if __base <= j < __base + __i { w1[j] + other.weight@[j - __base] } else { w1[j] as int }),
        {
            let x = &other.weight[__i];
            assert(other.at(other.offset + __i) == *x);
            assert(pw_at(new_offset as int, w1, other.offset + __i) == w1[__base + __i]);
            self.weight[__base + __i] += *x;
        }
        self.offset = new_offset;
    }
}

} // verus!
fn main() {}
