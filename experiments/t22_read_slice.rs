use vstd::prelude::*;
verus! {

pub open spec fn magic() -> Seq<u8> { seq![86u8, 97u8, 112u8] }
#[verifier::external_body]
pub exec const MODEL_MAGIC: &'static [u8] ensures MODEL_MAGIC@ == magic() { b"Vap" }

pub struct VaporettoError {}
#[verifier::external_body]
fn invalid_model(msg: &str) -> VaporettoError { unimplemented!() }
#[verifier::external_body]
fn decode_from_slice(s: &[u8]) -> (r: Result<(u8, usize), VaporettoError>)
    ensures r matches Ok((_, size)) ==> size <= s@.len()
{ unimplemented!() }

    pub fn read_slice(slice: &[u8]) -> (r: Result<(u8, &[u8]), VaporettoError>)
        ensures
            r is Ok ==> slice@.len() >= 3 && slice@.subrange(0, 3) == magic(),
            r matches Ok((_, rest)) ==> exists|k: int| 3 <= k <= slice@.len() && rest@ == #[trigger] slice@.subrange(k, slice@.len() as int),
    {
        if slice.get(..MODEL_MAGIC.len()) != Some(MODEL_MAGIC) {
            return Err(invalid_model("model version mismatch"));
        }
        let (data, size) = decode_from_slice(&slice[MODEL_MAGIC.len()..])?;
        Ok((data, &slice[MODEL_MAGIC.len() + size..]))
    }

} // verus!
fn main() {}
