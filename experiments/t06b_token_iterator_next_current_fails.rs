use vstd::prelude::*;
verus! {

#[derive(Clone, Copy, PartialEq, Eq, Debug, Structural)]
#[repr(u8)]
pub enum CharacterBoundary {
    NotWordBoundary = 0,
    WordBoundary = 1,
    Unknown = 2,
}

pub struct Sentence {
    pub boundaries: Vec<CharacterBoundary>,
}

impl Sentence {
    pub fn boundaries(&self) -> (r: &[CharacterBoundary])
        ensures r@ == self.boundaries@
    {
        &self.boundaries
    }
}

#[derive(Clone, Copy)]
pub struct Token<'a> {
    sentence: &'a Sentence,
    start: usize,
    end: usize,
}

pub struct TokenIterator<'a> {
    token: Token<'a>,
}

pub open spec fn is_w(b: Seq<CharacterBoundary>, k: int) -> bool { b[k] == CharacterBoundary::WordBoundary }
pub open spec fn is_u(b: Seq<CharacterBoundary>, k: int) -> bool { b[k] == CharacterBoundary::Unknown }

// s is a segment start: 0, or just after a word boundary
pub open spec fn seg_start(b: Seq<CharacterBoundary>, s: int) -> bool {
    0 <= s <= b.len() && (s == 0 || is_w(b, s - 1))
}
// [s, e) is a maximal word-boundary-delimited segment
pub open spec fn segment(b: Seq<CharacterBoundary>, s: int, e: int) -> bool {
    seg_start(b, s) && s < e <= b.len() + 1
    && (e == b.len() + 1 || is_w(b, e - 1))
    && (forall|k: int| s <= k < e - 1 ==> !is_w(b, k))
}
pub open spec fn valid_token(b: Seq<CharacterBoundary>, s: int, e: int) -> bool {
    segment(b, s, e) && (forall|k: int| s <= k < e - 1 ==> !is_u(b, k))
}
// iterator state: `end` is a segment start or the terminal value len+1
pub open spec fn it_wf(b: Seq<CharacterBoundary>, end: int) -> bool {
    seg_start(b, end) || end == b.len() + 1
}

impl<'a> TokenIterator<'a> {
    fn next(&mut self) -> (r: Option<Token<'a>>)
        requires
            it_wf(old(self).token.sentence.boundaries@, old(self).token.end as int),
            old(self).token.sentence.boundaries@.len() < usize::MAX - 1,
        ensures
            final(self).token.sentence == old(self).token.sentence,
            it_wf(final(self).token.sentence.boundaries@, final(self).token.end as int),
            match r {
                Some(t) => {
                    let b = old(self).token.sentence.boundaries@;
                    &&& t.sentence == old(self).token.sentence
                    &&& final(self).token.end == t.end
                    &&& valid_token(b, t.start as int, t.end as int)
                    &&& old(self).token.end <= t.start
                    &&& forall|s: int, e: int| old(self).token.end <= s < t.start && segment(b, s, e) ==> !valid_token(b, s, e)
                },
                None => {
                    let b = old(self).token.sentence.boundaries@;
                    &&& final(self).token.end == b.len() + 1
                    &&& forall|s: int, e: int| old(self).token.end <= s && segment(b, s, e) ==> !valid_token(b, s, e)
                },
            },
    {
        self.token.start = self.token.end;
        let ghost b = self.token.sentence.boundaries@;
        let ghost e0 = self.token.end as int;
        if let Some(boundaries) = self.token.sentence.boundaries().get(self.token.start..) {
            let base = self.token.start;
            let mut skip_token = false;
            for i in 0..boundaries.len()
                invariant
                    self.token.sentence == old(self).token.sentence,
                    b == self.token.sentence.boundaries@,
                    b.len() < usize::MAX - 1,
                    e0 == base == self.token.end <= b.len(), e0 == old(self).token.end,
                    boundaries@ == b.subrange(e0, b.len() as int),
                    seg_start(b, e0),
                    seg_start(b, self.token.start as int),
                    e0 <= self.token.start <= e0 + i,
                    forall|k: int| self.token.start <= k < e0 + i ==> !is_w(b, k),
                    skip_token <==> exists|k: int| self.token.start <= k < e0 + i && is_u(b, k),
                    forall|s: int, e: int| e0 <= s < self.token.start && segment(b, s, e) ==> !valid_token(b, s, e),
            {
                let b_ = boundaries[i];
                assert(b_ == b[e0 + i]);
                if b_ == CharacterBoundary::WordBoundary {
                    if skip_token {
                        proof {
                            let st = self.token.start as int;
                            let ku = choose|k: int| st <= k < e0 + i && is_u(b, k);
                            assert forall|s: int, e: int| e0 <= s < e0 + i + 1 && segment(b, s, e) implies !valid_token(b, s, e) by {
                                if s >= st {
                                    // s is a segment start in [st, e0+i]; no W in [st, e0+i) so s == st
                                    if s > st { assert(is_w(b, s - 1)); }
                                    assert(s == st);
                                    // segment end must be e0+i+1
                                    if e - 1 < e0 + i { if e != b.len() + 1 { assert(is_w(b, e - 1)); } }
                                    if e - 1 > e0 + i { assert(is_w(b, e0 + i)); }
                                    assert(is_u(b, ku));
                                }
                            }
                        }
                        self.token.start += i + 1;
                        skip_token = false;
                    } else {
                        self.token.end += i + 1;
                        proof {
                            let st = self.token.start as int;
                            assert(valid_token(b, st, e0 + i + 1));
                            assert(it_wf(b, e0 + i + 1));
                            assert(self.token.end == e0 + i + 1);
                            assert(b == old(self).token.sentence.boundaries@);
                            assert(e0 == old(self).token.end);
                        }
                        return Some(self.token);
                    }
                } else if b_ == CharacterBoundary::Unknown {
                    skip_token = true;
                    assert(is_u(b, e0 + i));
                }
            }
            if skip_token {
                self.token.end = self.token.sentence.boundaries().len() + 1;
                proof {
                    let st = self.token.start as int;
                    let ku = choose|k: int| st <= k < b.len() && is_u(b, k);
                    assert forall|s: int, e: int| e0 <= s && segment(b, s, e) implies !valid_token(b, s, e) by {
                        if s >= st {
                            if s > st { assert(is_w(b, s - 1)); }
                            assert(s == st);
                            if e != b.len() + 1 { assert(is_w(b, e - 1)); }
                            assert(is_u(b, ku));
                        }
                    }
                }
                return None;
            }
        } else {
            proof {
                assert(e0 == b.len() + 1);
                assert forall|s: int, e: int| e0 <= s && segment(b, s, e) implies !valid_token(b, s, e) by { }
            }
            return None;
        }
        self.token.end = self.token.sentence.boundaries().len() + 1;
        proof {
            assert(valid_token(b, self.token.start as int, (b.len() + 1) as int));
        }
        Some(self.token)
    }
}

} // verus!
fn main() {}
