"""Bounded stand-ins: run one Kani harness of /verif/kani (thorough tier only)."""
import os
import re
import shutil
import subprocess
import time

KANI_DIR = os.path.join(os.path.dirname(os.path.dirname(os.path.abspath(__file__))), 'kani')


def run_harness(h, timeout=3600):
    """h: {'harness': name, 'bound': text, 'flags': [...]}"""
    t0 = time.time()
    res = {'harness': h['harness'], 'label': 'bounded', 'bound': h.get('bound', ''), 'status': 'error', 'summary': '', 'output_tail': ''}
    if not os.path.isdir(KANI_DIR):
        res['summary'] = 'kani crate missing'
        return res
    try:
        shutil.copy('/repo/Cargo.lock', os.path.join(KANI_DIR, 'Cargo.lock'))
    except OSError:
        pass
    cmd = ['cargo', 'kani', '--harness', h['harness']] + h.get('flags', [])
    env = dict(os.environ, CARGO_NET_OFFLINE='true')
    try:
        p = subprocess.run(cmd, cwd=KANI_DIR, stdout=subprocess.PIPE, stderr=subprocess.STDOUT, timeout=h.get('timeout', timeout), env=env)
        out = p.stdout.decode('utf-8', 'replace')
    except subprocess.TimeoutExpired as ex:
        res['status'] = 'timeout'
        res['summary'] = 'timed out after %ds' % h.get('timeout', timeout)
        res['output_tail'] = (ex.stdout or b'').decode('utf-8', 'replace')[-2000:]
        return res
    res['wall_s'] = round(time.time() - t0, 1)
    res['output_tail'] = out[-3000:]
    res['cmd'] = ' '.join(cmd)
    m = re.search(r'VERIFICATION:-\s*(\w+)', out)
    m2 = re.search(r'\*\* (\d+) of (\d+) failed', out)
    if m and m.group(1) == 'SUCCESSFUL':
        res['status'] = 'ok'
        res['summary'] = 'VERIFICATION SUCCESSFUL' + (' (%s of %s failed)' % m2.groups() if m2 else '')
        mc = re.search(r'\*\* 0 of (\d+) failed', out)
        res['checks'] = int(mc.group(1)) if mc else None
    elif m and m.group(1) == 'FAILED':
        # unwinding assertion failure alone => bound too small => undecided, not a violation
        fails = re.findall(r'Failed Checks: (.*)', out)
        if fails and all('unwinding assertion' in f for f in fails):
            res['status'] = 'undecided'
            res['summary'] = 'unwinding bound too small: ' + '; '.join(fails[:3])
        else:
            res['status'] = 'failed'
            res['summary'] = '; '.join(fails[:5]) or 'VERIFICATION FAILED'
    else:
        res['summary'] = 'no verdict (rc=%d)' % p.returncode
    return res
