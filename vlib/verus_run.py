"""Run Verus on one assembled file and classify every diagnostic."""
import json
import os
import re
import subprocess
import time

VERUS = os.environ.get('VERIF_VERUS', 'verus')

# messages that are failed proof obligations
OBLIGATION_PATTERNS = [
    'postcondition not satisfied', 'precondition not satisfied', 'invariant not satisfied',
    'assertion failed', 'possible arithmetic underflow/overflow', 'possible division by zero',
    'decreases not satisfied', 'index out of bounds', 'possible bit shift underflow/overflow',
    'unable to prove', 'cannot show', 'failed to prove', 'loop invariant not preserved',
    'assertion not satisfied', 'recursive call', 'could not prove termination',
    'constructed value may fail to meet its declared type invariant',
    'possible overflow', 'possible underflow', 'could not show', 'precondition not met',
]
# messages that mean the tool could not decide
UNDECIDED_PATTERNS = [
    'Resource limit', 'rlimit', 'not supported', 'not yet supported', 'does not support',
    'unsupported', 'timed out', 'z3 error', 'solver', 'internal error', 'Verus Internal',
    'The verifier does not yet',
]


def run_verus(path, rlimit=None, timeout=900, extra=()):
    cmd = [VERUS, path, '--output-json', '--time-expanded', '--error-format=json', '--multiple-errors', '8']
    if rlimit:
        cmd += ['--rlimit', str(rlimit)]
    cmd += list(extra)
    t0 = time.time()
    env = dict(os.environ)
    try:
        p = subprocess.run(cmd, stdout=subprocess.PIPE, stderr=subprocess.PIPE, timeout=timeout,
                           cwd=os.path.dirname(path), env=env)
        out, err, rc = p.stdout.decode('utf-8', 'replace'), p.stderr.decode('utf-8', 'replace'), p.returncode
        timed_out = False
    except subprocess.TimeoutExpired as ex:
        out = (ex.stdout or b'').decode('utf-8', 'replace')
        err = (ex.stderr or b'').decode('utf-8', 'replace')
        rc, timed_out = -1, True
    wall = time.time() - t0
    res = {'cmd': ' '.join(cmd), 'rc': rc, 'wall_s': round(wall, 2), 'timed_out': timed_out,
           'diagnostics': [], 'functions': [], 'verified': 0, 'errors': 0, 'success': False,
           'raw_stderr': err, 'smt_ms': 0}
    try:
        # stdout may contain a "verification results::" line before/after JSON
        start = out.index('{')
        js = json.loads(out[start:out.rindex('}') + 1])
        vr = js.get('verification-results', {})
        res['verified'] = vr.get('verified', 0)
        res['errors'] = vr.get('errors', 0)
        res['success'] = bool(vr.get('success')) and not vr.get('encountered-error') and not vr.get('encountered-vir-error')
        res['encountered_vir_error'] = bool(vr.get('encountered-vir-error'))
        smt = js.get('times-ms', {}).get('smt', {})
        res['smt_ms'] = smt.get('total', 0)
        for mod in smt.get('smt-run-module-times', []):
            for fb in mod.get('function-breakdown', []):
                res['functions'].append({'function': fb['function'], 'mode': fb.get('mode:', fb.get('mode')),
                                         'time_ms': fb.get('time'), 'rlimit': fb.get('rlimit'),
                                         'success': fb.get('success')})
        res['verus_version'] = js.get('verus', {}).get('version')
    except (ValueError, KeyError):
        res['json_parse_failed'] = True
    for line in err.split('\n'):
        line = line.strip()
        if not line.startswith('{'):
            continue
        try:
            d = json.loads(line)
        except ValueError:
            continue
        if d.get('$message_type') != 'diagnostic':
            continue
        if d.get('level') not in ('error', 'note') and not (d.get('level') == 'warning' and 'recommend' in d.get('message', '')):
            continue
        if d.get('level') == 'note' and 'rlimit' not in d.get('message', '') and 'Resource' not in d.get('message', ''):
            continue
        spans = [{'line': s['line_start'], 'line_end': s['line_end'], 'col': s['column_start'], 'primary': s['is_primary'],
                  'label': s.get('label'), 'text': (s.get('text') or [{}])[0].get('text', '').strip()}
                 for s in d.get('spans', [])]
        res['diagnostics'].append({'level': d['level'], 'message': d['message'], 'code': (d.get('code') or {}).get('code'),
                                   'spans': spans, 'rendered': d.get('rendered', '')})
    return res


def classify(diag):
    """'obligation' | 'undecided' | 'summary' | 'other'"""
    msg = diag['message']
    if diag['level'] != 'error':
        if any(p in msg for p in ('Resource limit', 'rlimit')):
            return 'undecided'
        return 'other'
    if msg.startswith('aborting due to') or msg.startswith('could not compile'):
        return 'summary'
    if diag.get('code'):
        return 'undecided'      # rustc type/borrow error in spliced text
    for p in UNDECIDED_PATTERNS:
        if p in msg:
            return 'undecided'
    for p in OBLIGATION_PATTERNS:
        if p in msg:
            return 'obligation'
    return 'undecided'


def enclosing_fn(lines, idx):
    """name of the nearest `fn NAME` at or before 0-based line idx"""
    for k in range(min(idx, len(lines) - 1), -1, -1):
        m = re.search(r'\bfn\s+(\w+)', re.sub(r'/\*.*?\*/', '', lines[k]))
        if m and not lines[k].lstrip().startswith('//'):
            return m.group(1)
    return None



CLOSURE_RE = re.compile(r"(?:^|[(,={;]|=>|\breturn|\bmove)\s*\|([^|]*)\|")


def uncontracted_closures(lines):
    """(0-based line, enclosing fn) of every closure literal on a repo-derived line (/*@L..*/) that carries no
    requires/ensures, outside external_body functions. Verus knows nothing about the result of such a closure, so
    every obligation of the enclosing function is undecidable (unsupported construct), not a violation."""
    hits = []
    for i, raw in enumerate(lines):
        if '/*@L' not in raw:
            continue
        code = re.sub(r'/\*.*?\*/', '', raw)
        code = re.sub(r'//.*$', '', code)
        code = re.sub(r'"(?:[^"\\]|\\.)*"', '""', code)
        code = re.sub(r"'(?:[^'\\]|\\.)'", "' '", code)
        for m in CLOSURE_RE.finditer(code):
            params = m.group(1)
            if not re.match(r"^[\w\s:&,'<>()\[\]*]*$", params):
                continue
            if re.search(r'\b(forall|exists|choose)\s*$', code[:m.start() + 1]):
                continue
            window = code[m.end():] + ' ' + ' '.join(re.sub(r'/\*.*?\*/', '', l) for l in lines[i + 1:i + 4])
            head = window.split('{', 1)[0]
            if re.search(r'\b(requires|ensures)\b', head):
                continue
            # enclosing function and its attributes
            fn, ext = None, False
            for k in range(i, -1, -1):
                mm = re.search(r'\bfn\s+(\w+)', re.sub(r'/\*.*?\*/', '', lines[k]))
                if mm and not lines[k].lstrip().startswith('//'):
                    fn = mm.group(1)
                    ext = any('external_body' in lines[j] or 'verifier::external' in lines[j] for j in range(max(0, k - 4), k))
                    break
            if fn and not ext:
                hits.append((i, fn))
    return hits


def name_obligations(res, report, assembled_path):
    """attach to every diagnostic: kind, function, origin (repo line or vc clause), obligation name"""
    lines = open(assembled_path, encoding='utf-8').read().split('\n')
    linemap = report['linemap']
    named = []
    for d in res['diagnostics']:
        kind = classify(d)
        if kind in ('summary', 'other'):
            continue
        prim = [s for s in d['spans'] if s['primary']] or d['spans']
        sp = prim[0] if prim else None
        entry = {'class': kind, 'message': d['message'], 'rendered': d['rendered']}
        if sp:
            idx = sp['line'] - 1
            fn = enclosing_fn(lines, idx)
            org = linemap[idx] if 0 <= idx < len(linemap) else None
            clause = re.sub(r'/\*@[LV][\d.]+\*/', '', sp['text']).strip()
            entry.update({'function': fn, 'assembled_line': sp['line'], 'clause': clause})
            if org:
                entry['origin'] = {'kind': org[0], 'file': org[1], 'line': org[2]}
            # secondary spans tell which clause failed (postcondition/precondition)
            sec = [s for s in d['spans'] if not s['primary']]
            if sec:
                s2 = sec[0]
                entry['related'] = {'assembled_line': s2['line'], 'label': s2['label'],
                                    'text': re.sub(r'/\*@[LV][\d.]+\*/', '', s2['text']).strip()}
                o2 = linemap[s2['line'] - 1] if 0 <= s2['line'] - 1 < len(linemap) else None
                if o2:
                    entry['related']['origin'] = {'kind': o2[0], 'file': o2[1], 'line': o2[2]}
            where = ''
            if org:
                where = '%s:%d' % (os.path.basename(org[1]) if org[1] else '?', org[2])
            entry['obligation'] = '%s/%s @ %s: %s' % (fn, d['message'], where, clause[:100])
        else:
            entry['obligation'] = '?/%s' % d['message']
        named.append(entry)
    # a closure without a contract in a function under contract: its obligations cannot be decided
    bare = uncontracted_closures(lines)
    if bare:
        fns = {fn: i for i, fn in bare}
        for e in named:
            if e['class'] == 'obligation' and e.get('function') in fns:
                i = fns[e['function']]
                org = linemap[i] if 0 <= i < len(linemap) else None
                where = '%s:%d' % (os.path.basename(org[1]) if org and org[1] else '?', org[2] if org else i + 1)
                e['class'] = 'undecided'
                e['obligation'] = 'unsupported construct: closure without a contract in %s (@ %s); not decided: %s' % (e['function'], where, e['obligation'])
    return named
