import sys, json
sys.path.insert(0,'/verif')
from vlib import extract, verus_run
vc=sys.argv[1]
variant = sys.argv[2] if len(sys.argv)>2 else None
u = extract.parse_vc(vc, variant)
out='/verif/out/%s.rs' % u.name
rep = extract.assemble(u, out)
res = verus_run.run_verus(out)
print('verified',res['verified'],'errors',res['errors'],'success',res['success'],'wall',res['wall_s'],'smt_ms',res['smt_ms'])
for n in verus_run.name_obligations(res, rep, out):
    print(n['class'], '|', n.get('obligation'))
    print(n['rendered'][:1500])
for f in res['functions']:
    if not f['success'] or (f['time_ms'] or 0) > 1000: print(f)
if res.get('json_parse_failed'): print(res['raw_stderr'][-3000:])
