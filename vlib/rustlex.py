"""Minimal Rust lexer + item splitter used by the mechanical extractor.

Only what is needed to (a) match braces reliably in the presence of strings, chars,
lifetimes and comments, (b) split a file / impl block into items with their outer
attributes, (c) evaluate #[cfg(...)] predicates for a stated feature set.
No parsing of expressions is attempted.
"""
import re

class LexError(Exception):
    pass

IDENT_START = re.compile(r'[A-Za-z_]')
IDENT = re.compile(r'[A-Za-z_][A-Za-z0-9_]*')
NUM = re.compile(r'[0-9][0-9A-Za-z_]*(\.[0-9][0-9A-Za-z_]*)?')
RAWSTR = re.compile(r'b?r(#*)"')


def lex(text):
    """Return list of (kind, start, end). kinds: ws comment doc str char lifetime ident num punct"""
    toks = []
    i, n = 0, len(text)
    while i < n:
        c = text[i]
        if c.isspace():
            j = i + 1
            while j < n and text[j].isspace():
                j += 1
            toks.append(('ws', i, j)); i = j; continue
        if text.startswith('//', i):
            j = text.find('\n', i)
            if j < 0:
                j = n
            kind = 'doc' if (text.startswith('///', i) and not text.startswith('////', i)) or text.startswith('//!', i) else 'comment'
            toks.append((kind, i, j)); i = j; continue
        if text.startswith('/*', i):
            depth, j = 1, i + 2
            while j < n and depth:
                if text.startswith('/*', j):
                    depth += 1; j += 2
                elif text.startswith('*/', j):
                    depth -= 1; j += 2
                else:
                    j += 1
            toks.append(('comment', i, j)); i = j; continue
        m = RAWSTR.match(text, i)
        if m:
            closer = '"' + m.group(1)
            j = text.find(closer, m.end())
            if j < 0:
                raise LexError('unterminated raw string at %d' % i)
            j += len(closer)
            toks.append(('str', i, j)); i = j; continue
        if c == '"' or (c == 'b' and i + 1 < n and text[i + 1] == '"'):
            j = i + (2 if c == 'b' else 1)
            while j < n and text[j] != '"':
                j += 2 if text[j] == '\\' else 1
            if j >= n:
                raise LexError('unterminated string at %d' % i)
            toks.append(('str', i, j + 1)); i = j + 1; continue
        if c == "'" or (c == 'b' and i + 1 < n and text[i + 1] == "'"):
            k = i + (1 if c == 'b' else 0)
            # char literal or lifetime
            if k + 1 < n and text[k + 1] == '\\':
                # escaped char literal: '\n' '\'' '\\' '\u{1f468}' — closing quote is at k+3 or later
                j = text.find("'", k + 3)
                if j < 0:
                    raise LexError('unterminated char literal at %d' % i)
                toks.append(('char', i, j + 1)); i = j + 1; continue
            if k + 2 < n and text[k + 2] == "'":
                toks.append(('char', i, k + 3)); i = k + 3; continue
            # multi-byte char literal cannot happen: python str is by code point
            m = IDENT.match(text, k + 1)
            if m and c == "'":
                toks.append(('lifetime', i, m.end())); i = m.end(); continue
            raise LexError('bad quote at %d: %r' % (i, text[i:i + 10]))
        if IDENT_START.match(c):
            m = IDENT.match(text, i)
            toks.append(('ident', i, m.end())); i = m.end(); continue
        if c.isdigit():
            m = NUM.match(text, i)
            j = m.end()
            # do not swallow range dots: "0..n"
            s = text[i:j]
            if '.' in s and text.startswith('..', i + s.index('.')):
                j = i + s.index('.')
            toks.append(('num', i, j)); i = j; continue
        toks.append(('punct', i, i + 1)); i += 1
    return toks


OPEN = {'(': ')', '[': ']', '{': '}'}
CLOSE = {')', ']', '}'}
TRIVIA = ('ws', 'comment', 'doc')


def match_close(text, toks, k):
    """toks[k] is an opening bracket; return index of the matching closer token."""
    depth = 0
    for j in range(k, len(toks)):
        kind, s, e = toks[j]
        if kind != 'punct':
            continue
        ch = text[s]
        if ch in OPEN:
            depth += 1
        elif ch in CLOSE:
            depth -= 1
            if depth == 0:
                return j
    raise LexError('unbalanced bracket at offset %d' % toks[k][1])


class Item:
    __slots__ = ('attrs', 'docs', 'start', 'sig_start', 'body_open', 'end', 'head')

    def __repr__(self):
        return 'Item(%r)' % (self.head[:60],)


def split_items(text, lo=0, hi=None):
    """Split text[lo:hi] (the inside of a file, impl, or mod block) into items.

    Each Item has: attrs (list of attribute source strings), start (offset of first attr/doc),
    sig_start (offset of the first token of the item proper), body_open (offset of '{' of the
    item's block or None), end (offset one past the item's last char), head (text from
    sig_start to body_open/end, whitespace-normalised).
    """
    if hi is None:
        hi = len(text)
    sub = text[lo:hi]
    toks = lex(sub)
    items = []
    k, n = 0, len(toks)
    while k < n:
        kind, s, e = toks[k]
        if kind in ('ws', 'comment'):
            k += 1; continue
        it = Item(); it.attrs = []; it.docs = []; it.start = lo + s
        # outer attributes and doc comments
        while k < n:
            kind, s, e = toks[k]
            if kind in ('ws', 'comment'):
                k += 1; continue
            if kind == 'doc':
                it.docs.append(sub[s:e]); k += 1; continue
            if kind == 'punct' and sub[s] == '#':
                j = k + 1
                while toks[j][0] in TRIVIA:
                    j += 1
                if sub[toks[j][1]] == '!':
                    j += 1
                if sub[toks[j][1]] != '[':
                    raise LexError('expected [ after # at %d' % (lo + s))
                c = match_close(sub, toks, j)
                it.attrs.append(sub[s:toks[c][2]])
                k = c + 1; continue
            break
        if k >= n:
            break
        it.sig_start = lo + toks[k][1]
        depth = 0
        body_open = None
        end = None
        j = k
        while j < n:
            kind, s, e = toks[j]
            if kind == 'punct':
                ch = sub[s]
                if ch in OPEN:
                    if ch == '{' and depth == 0:
                        c = match_close(sub, toks, j)
                        body_open = lo + s
                        # item ends at the closing brace, unless followed by ';' (e.g. `struct X {..};` never) —
                        # `let`-like forms do not occur at item level.
                        end = lo + toks[c][2]
                        j = c
                        break
                    depth += 1
                elif ch in CLOSE:
                    depth -= 1
                elif ch == ';' and depth == 0:
                    end = lo + e
                    break
            j += 1
        if end is None:
            raise LexError('unterminated item at %d' % it.sig_start)
        it.body_open = body_open
        it.end = end
        head_end = body_open if body_open is not None else end
        it.head = ' '.join(text[it.sig_start:head_end].split())
        items.append(it)
        k = j + 1
    return items


# ---------------------------------------------------------------- cfg evaluation

def _parse_cfg(s, i=0):
    s = s.strip()
    m = re.match(r'\s*(\w+)\s*', s[i:])
    if not m:
        raise LexError('bad cfg: %r' % s)
    name = m.group(1); i += m.end()
    if i < len(s) and s[i] == '(':
        args = []
        i += 1
        while True:
            while i < len(s) and s[i] in ' ,\n\t':
                i += 1
            if s[i] == ')':
                i += 1; break
            node, i = _parse_cfg(s, i)
            args.append(node)
        return (name, args), i
    if i < len(s) and s[i] == '=':
        m = re.match(r'=\s*"([^"]*)"', s[i:])
        i += m.end()
        return (name, m.group(1)), i
    return (name, None), i


def eval_cfg(pred, features, flags=()):
    """pred: the text inside #[cfg( ... )]. features: set of enabled feature names."""
    node, _ = _parse_cfg(pred)
    def ev(nd):
        name, arg = nd
        if name == 'feature':
            return arg in features
        if name == 'not':
            return not ev(arg[0])
        if name == 'all':
            return all(ev(a) for a in arg)
        if name == 'any':
            return any(ev(a) for a in arg)
        if name == 'test' or name == 'docsrs' or name == 'kani':
            return False
        if arg is None:
            return name in flags
        raise LexError('unsupported cfg predicate: %s' % name)
    return ev(node)


CFG_ATTR = re.compile(r'#\s*\[\s*cfg\s*\((.*)\)\s*\]\s*$', re.S)


def cfg_of_attr(attr):
    m = CFG_ATTR.match(attr)
    return m.group(1) if m else None
