#!/usr/bin/env python3
"""Generates /verif/MANIFEST.json from the tables below (single source of truth)."""
import json
import os
import sys

HERE = os.path.dirname(os.path.dirname(os.path.abspath(__file__)))

TECH = 'contract-based deductive verification (Verus/Z3) of functions re-extracted from /repo on every run'

CHECKS = {
    'C02': {
        'level': 'proof',
        'text': 'TokenIterator::next carries the contract "returns the first unknown-free word-boundary-delimited segment at or after the '
                'previous end, or None when none remains" for every boundary vector of every length (inductive loop invariant, no bound); '
                'partition / exactly-once / ordering clauses are lemmas over that contract; Token accessors are proved in bounds; '
                'write_tokenized_text is proved (unit W_writer, against the contracts of iter_tokens/next/surface/tags) to leave in the buffer exactly '
                'tok_line(sentence): the tokens in iterator order, separated by one space, escaped, with each token\'s tags up to the last present one.',
        'design_ref': 'DESIGN.md section 5.C02',
        'note': 'Trusted: extraction rules (listed in evidence), opaque Predictor/VaporettoError stubs, std specs u32::from(char), String::as_mut_vec '
                '(bytes = UTF-8 of the string; the string after the borrow is the decoding of the bytes IF they are valid UTF-8 -- validity is proved), '
                'and the std expression rposition(..).map_or(..) moved into a stub function with its std meaning as contract.',
        'technique': TECH + '; loop invariant over the segment abstraction',
    },
    'C03': {
        'level': 'proof',
        'text': 'Round trip of the tokenized format as a theorem over the two contracts: write_tokenized_text is proved to emit tok_line(s) (unit W_writer) '
                'and from_tokenized/update_tokenized are proved to compute tok_run(input) -- text, labels, tag table, n_tags -- and to fail only on inputs '
                'tok_run rejects (unit S_parse). Lemma lemma_tok_roundtrip (induction over the segments of the line and the characters of every surface and '
                'tag, unbounded): for every fully segmented sentence with NUL-free text and non-empty NUL-free tags, tok_run(tok_line(s)) accepts and yields '
                'the same text, the same labels and, on the last character of every token, that token\'s tags up to the last present one. Two verified '
                'callers of the real functions (checked against the callee contracts only) state the property itself: c03_write_then_parse returns Ok(p) '
                'with p equal to s up to trailing absent tags, and c03_idempotent shows write(parse(write(parse x))) == write(parse x) for every accepted x. '
                'Valid UTF-8 of the written text is an obligation inside write_tokenized_text (bytes pushed through as_mut_vec).',
        'design_ref': 'DESIGN.md section 5.C03',
        'note': 'Trusted: the std specs listed under C02/C05, extraction rules, and the two format specifications themselves (tok_run and tok_line are '
                'transcribed from the documented rules; a known-answer lemma and canaries guard against vacuous specs). Tags are compared per token '
                '(Token::tags row); tags on characters that do not end a token are not representable in the format.',
        'technique': TECH + '; encode/decode pair as a lemma over two function contracts, composed in verified callers',
    },
    'C04': {
        'level': 'proof',
        'text': 'Round trip of the partial-annotation format as a theorem over the two contracts: write_partial_annotation_text is proved to emit '
                'pa_line(s) (unit W_pawriter: every character, its tags up to the last present one with delimiters escaped, the label symbol) and '
                'from_partial_annotation/update_partial_annotation are proved to compute pa_run(input) -- text, labels, tag table, n_tags -- and to fail '
                'only on inputs pa_run rejects (unit S_parse). Lemma lemma_pa_roundtrip (induction over characters and over the characters of every '
                'tag, unbounded): for every sentence with NUL-free text, any labels and non-empty tags made of any characters, pa_run(pa_line(s)) accepts '
                'and yields the same text, the same label at every boundary and at every character the tags up to the last present one. A verified '
                'caller of the real functions (checked against the callee contracts only), c04_write_then_parse, states the property itself.',
        'design_ref': 'DESIGN.md section 5.C04',
        'note': 'A genuine defect was found while writing the writer contract and by the sweep: tags were written unescaped (fixed in /repo e571e31, '
                'known_findings.txt). Trusted: std specs listed in evidence (String::push/push_str from vstd, chunks_exact / ChunksExact::next assumed with an '
                'explicit model, rposition/map_or stub), extraction rules incl. R11 (zip chain spelled out as next() calls left to right), and the two '
                'format specifications themselves (canaries + the spec-sensitivity of the lemma guard against vacuity).',
        'technique': TECH + '; encode/decode pair as a lemma over two function contracts, composed in a verified caller',
    },
    'C05': {
        'level': 'proof',
        'text': 'parse_raw, parse_tokenized, parse_partial_annotation and the six constructors/updates are proved total (no overflow, '
                'no unwrap on None, no division by zero, every index in range, loops terminating) for every input string, with postconditions '
                'saying that a failed update leaves exactly the default single-space sentence and a successful one leaves a sentence whose '
                'character types, position maps, boundary count, tag-slot count and cleared scratch state are functions of the new text only, '
                'whatever the object held before (update_* have no precondition); accessors and reset_tags are proved against the invariant.',
        'design_ref': 'DESIGN.md section 5.C05',
        'note': 'Trusted: std specs missing from vstd (Cow deref/to_mut, Option::replace, u32::from(char), str/String length <= isize::MAX), '
                'opaque error constructor, extraction rules R0/R1/R4/R5/R7/R9/R10. Both parsers are additionally proved to compute exactly the '
                'format transition functions tok_run / pa_run on the whole input (content clause; used by C03). The two writers are proved in '
                'units W_writer and W_pawriter.',
        'technique': TECH + '; representation invariant + history-free postconditions',
    },
    'C07': {
        'level': 'proof',
        'text': 'Model::read_slice is proved, for every byte slice, to never index out of range, to return an error when the input is shorter '
                'than the 25-byte header or the header differs, and on success to return exactly slice[25 + size ..] where size is the byte count '
                'reported by the payload decoder; under the assumed codec inverse, header ++ enc(m) ++ tail reads back as (m, tail). Model::read is '
                'proved against an abstract reader (may end, fail, or return short reads anywhere): Ok only for magic ++ decodable payload, and '
                'every such stream from a non-failing reader IS accepted however the reads are chunked. to_vec returns magic ++ enc(model).',
        'design_ref': 'DESIGN.md section 5.C07',
        'note': 'ASSUMED: bincode decoder returns size <= input length and is the inverse of the encoder (codec inverse, uninterpreted enc/decodable); '
                'assumed trait contracts for io::Read/Write; R6 byte list generated from the literal. Not covered: the derive-generated codecs themselves.',
        'technique': TECH + '; header/remainder arithmetic against an assumed decoder contract',
    },
    'C08': {
        'level': 'proof',
        'text': 'History collapsing: update_raw / update_tokenized / update_partial_annotation / set_default carry NO precondition and ensure a '
                'post-state that does not mention old(self) (raw_state / annotated_state / default_state), plus lemma '
                'raw_state(a) && raw_state(b) && a.text == b.text ==> equal views; so any history followed by update_raw(x) equals from_raw(x). '
                'Predictor::predict re-initialisation is under C01/C13 units.',
        'design_ref': 'DESIGN.md section 5.C08',
        'note': 'Thread clause not covered (no contract-level notion of threads here). tag_scores is outside the view. Trusted base as C05.',
        'technique': TECH + '; precondition-free update contracts + function-of-text lemma',
    },
    'C15': {
        'level': 'proof',
        'text': 'KyteaWsConstFilter::filter, SplitLinebreaksFilter::filter and ConcatGraphemeClustersFilter::filter are proved, for every well-formed sentence, to produce exactly their rule '
                '(boundary i cleared iff types i and i+1 equal the filter type / set iff character i or i+1 is CR or LF / cleared iff i lies inside a cluster of the cluster-by-cluster segmentation; otherwise unchanged), to leave '
                'every other field untouched, to keep the invariant, with every unchecked index, unchecked str slice (at a proved char boundary) and '
                'unwrap_unchecked proved safe; idempotence is a lemma over each rule.',
        'design_ref': 'DESIGN.md section 5.C15',
        'note': 'PatternMatchTagger::filter is proved too (unit F_tagger): every tag slot afterwards equals tagged_slot(rules, text, boundaries, old tags) - an absent tag of a token whose surface is a key becomes the rule row entry for that slot, everything else is unchanged - with frame, idempotence and the tag index in range, against an assumed contract of hashbrown HashMap::get. The grapheme filter is proved against an assumed contract of the unicode-segmentation call (uninterpreted first_cluster, 1 <= size <= remaining length); that the crate implements UAX #29 is checked by the bounded sweep with known-answer cluster boundaries only.',
        'technique': TECH + '; rule as a spec function + frame postcondition',
    },
    'C16': {
        'level': 'proof',
        'text': 'KyteaFullwidthFilter::filter is proved for every string: output has the same number of characters, position i of the output is '
                'fw(input[i]) where fw is the match table re-extracted verbatim from the source on every run, fw is idempotent and never produces NUL.',
        'design_ref': 'DESIGN.md section 5.C16',
        'note': 'R13 instantiates S = &str (as_ref is the identity there). The Tantivy clause (tokens tile the original text, carry the original substring, '
                'consecutive positions, break where the core pipeline breaks) is NOT under contract: it is decided by the bounded sweep c16t on the real '
                'adapter (own replay crate), labelled bounded.',
        'technique': TECH + '; table extracted as spec function, loop invariant over all strings',
    },
    'C19': {
        'level': 'proof',
        'text': 'Model::replace_dictionary is proved to store exactly the argument and leave every other field of the model equal to its old value; '
                'dictionary()/tag_models() return those fields; WordWeightRecord::new succeeds iff weights.len() == chars(word)+1 and stores its arguments unchanged.',
        'design_ref': 'DESIGN.md section 5.C19',
        'note': 'R10: word.chars().count() replaced by a verified counting loop (Iterator::count has no vstd spec). The score-difference clause and the '
                'dump / replace clause of the model tool are NOT under contract: they are decided by the bounded sweep c19 (brute-force linear model on '
                'seeded models; the manipulate_model binary built from /repo: dump, replace with the unmodified dump, byte-for-byte comparison for awkward '
                'words and comments, rejection of a record with a wrong weight count), labelled bounded.',
        'technique': TECH + '; frame conditions on the model record',
    },
    'C01': {
        'level': 'proof',
        'text': 'The arithmetic chain of the linear model is proved for all inputs: PositionalWeight::add_assign is additive at every position (any two '
                'offsets/lengths, overlap, left/right overhang); both weight-vector layouts denote the same positional function as the source vector; '
                'add_score adds exactly contrib(w, end+offset, j) to EVERY slot j (three branches, Fixed window precondition explicit); the cached type '
                'scorer adds exactly table[rolling id] to each boundary slot with the id recurrence proved in bit-vector mode; Predictor::predict '
                're-initialises every slot to bias, lets the scorers add, and labels boundary i WordBoundary iff score[7+i] > 0 else NotWordBoundary, '
                'for every i, leaving no Unknown and nothing else changed.',
        'design_ref': 'DESIGN.md section 5.C01',
        'note': 'The four automaton-driven add_scores bodies are proved in unit C_scorers (positional sum over the matches reported by the automaton, '
                'padding sufficiency, every unchecked access) against an ASSUMED daachorse iterator contract (matches have in-range ends and pattern '
                'values); their enum-level contracts are the same text used by Predictor::predict. ASSUMED: daachorse semantics, '
                'weight mergers, cache table construction, std rotate_right/split_last specs. Machine arithmetic is NOT treated as mathematical: '
                'overflow obligations are discharged from stated ranges (offsets in [-32767,0], lengths < 2^31, pointwise sums in i32).',
        'technique': TECH + '; positional-function spec (contrib) + loop invariants + bit-vector lemmas',
    },
    'C06': {
        'level': 'proof',
        'text': 'TagPredictor::predict is proved against the statement: category k gets the candidate at the FIRST index attaining the maximum of its '
                'score slice (slice located by the running class offset offs(k)), a single candidate is taken as is, no candidate gives None, slots '
                'beyond the model are untouched; WeightVector::add_scores adds weight j to score j in both layouts; predict_tags is proved in bounds '
                '(tag slots i*n..(i+1)*n, substrings, score-storing slots) with the sentence invariant and frame preserved.',
        'design_ref': 'DESIGN.md section 5.C06',
        'note': 'Both add_tag_scores bodies are proved in unit C_scorers against assumed hash-map / automaton stubs; at the predict_tags call site '
                'their extra preconditions (token id range, no overflow, >= 8 slots) are ASSUMED, as are token lookup, tag_entry_ok (bias sized to '
                'the candidates) and tagging_ok (scorer variant) which Predictor::new is meant to establish.',
        'technique': TECH + '; arg-max-first predicate + class-offset recursion',
    },
    'C09': {
        'level': 'proof',
        'text': 'The part of Trainer::train that turns a (feature, quantised weight) pair into the stored model is extracted as a block on every run '
                'and proved: a character n-gram weight goes to slot window - len - rel_position of a vector of 2*window - len + 1 entries where window is '
                'the CHARACTER window, a type n-gram weight likewise with the TYPE window (every stored vector covers exactly the positions of its own '
                'window), dictionary weights go to the (left, inside, right) component of their length bucket; no overflow, no failing unwrap, no index out '
                'of range for features that lie inside their window. lemma_slot_meets_predictor / lemma_word_slots show that these are the slots the '
                'predictor reads for that relative position (same anchor expression e + 6 + offset as the scorer contracts of unit C_scorers). The '
                'dictionary expansion closure is proved to produce [left, inside x (n-1), right] for a word of n characters.',
        'design_ref': 'DESIGN.md section 5.C09',
        'note': 'Genuine defect found and fixed (type n-gram weights were placed with the character window: /repo 7fdb412). NOT proved: quantisation '
                '(f64, to_int_unchecked), the liblinear calls, the pairing of feature and coefficient through the id map; the wrapper signatures of the '
                'extracted blocks restate the types rustc infers for the locals of train(). BTreeMap is an assumed stub with a ghost map view.',
        'technique': TECH + '; block extraction + slot lemmas tied to the predictor-side contract',
    },
    'C10': {
        'level': 'proof',
        'text': 'gen_features is proved to produce one entry per boundary, labelled by the annotation, whose features are exactly the character n-grams '
                'of length 1..N and the type n-grams of length 1..M lying inside the respective window, each with its relative position, followed by one '
                'left/inside/right dictionary feature (bucketed length) per reported dictionary-word occurrence touching the boundary; add_example is proved '
                'to hand exactly one example per ANNOTATED boundary to the learner, in order, labelled by the annotation, carrying those features, and none '
                'for unknown boundaries (want_rows / want_labels).',
        'design_ref': 'DESIGN.md section 5.C10',
        'note': 'Genuine defect found and fixed (unknown boundaries were handed to liblinear as a third class: /repo 1274a28). ASSUMED: daachorse reports '
                'exactly the dictionary-word occurrences; the feature-numbering statements of add_example (hashbrown entry API, f64) are an assumed stub '
                '(decoded_rows); TagTrainer::add_example opaque.',
        'technique': TECH + '; functional spec of the feature extractor + per-example postcondition',
    },
    'C11': {
        'level': 'exploration',
        'text': 'BOUNDED stand-in (the training pipeline is liblinear FFI + floating point and cannot be brought within the verifier\'s reach): every '
                'combination of window and n-gram sizes 1..3 (1..5 thorough), three dictionary settings and seven small corpora (including a corpus '
                'without any word boundary, an empty one and one with multi-candidate tags) is trained on the real crate; training must return Ok or Err '
                'without panicking and every returned model must serialise, decode, re-read, be accepted by Predictor::new with and without tag '
                'prediction, predict and tag texts, and hold only 16-bit weights. Supporting (not the claim): the no-panic obligations of gen_features, '
                'add_example, the weight-translation block and the dictionary expansion are discharged by Verus in unit X_train.',
        'design_ref': 'DESIGN.md section 5.C11',
        'note': 'Three genuine defects found by this sweep and fixed: negative slot index when type window > char window (7fdb412), Predictor::new index '
                'panic on models trained with n-gram size > window size (cd9204e), unwrap on a corpus without word boundary (e50f803). Bound stated in '
                'evidence (evaluations / distinct_nontrivial are measured from the run).',
        'technique': 'bounded sweep of the real trainer (labelled stand-in, not proof) + supporting Verus obligations on the functions within reach',
    },
    'C12': {
        'level': 'exploration',
        'text': 'BOUNDED stand-in (per-token liblinear training cannot be brought within the verifier\'s reach): 3 tagged corpora x 6 configurations x '
                'with/without tag dictionary are trained on the real crate; the serialised model is decoded and its tag models compared with a reference '
                'written from the statement (distinct tags per token and category in order of first observation, dictionary-only tokens, score vectors '
                'sized to the trainable candidates), and the tagger is run on the training sentences and on an unseen token.',
        'design_ref': 'DESIGN.md section 5.C12',
        'note': 'Not a proof of the property. Supporting obligations (Verus, unit X_tagtrain): TagTrainer::add_example stores one example per token, '
                'with the token\'s tag row and exactly the n-grams 1..N characters longer than the token that contain it, lie inside the sentence and '
                'end 0..window characters after its end, with that distance as relative position (the range the tag scorers can see; repaired under '
                'C11, cd9204e). The equality of the stored tag scores with the learned quantised classifier applied to the '
                'reference tag features IS checked by the sweep through the verification hook VERIF_TAG_LEARNED (bounded).',
        'technique': 'bounded sweep of the real trainer against a reference written from the statement (labelled stand-in, not proof)',
    },
    'C17': {
        'level': 'exploration',
        'text': 'BOUNDED stand-in: (a) the KyTea model shipped with the repository: every truncation inside the part the reader consumes is rejected '
                'with an error (no panic), the complete file converts to the recorded known answer, whose structure, usability and scores are checked; '
                '(b) seeded synthetic KyTea binaries: the converted model must contain exactly the n-grams (type letters mapped to codes), bias, '
                'windows and dictionary words of the file, dictionary weights summed over the dictionaries a word belongs to by length bucket, and '
                'score texts as those weights dictate (brute-force linear model); sampled truncations are rejected.',
        'design_ref': 'DESIGN.md section 5.C17',
        'note': 'Not a proof of the property; discharged obligations exist for three blocks of the conversion only (unit K_kytea: the record built per character n-gram, per type n-gram and per dictionary word equals what the statement says, under stated ranges about the file). The shipped file has no dictionaries, so the dictionary path is exercised by 300 (3000 thorough) seeded SYNTHETIC KyTea '
                'binaries (1-3 windows, 1-4 length buckets, 0-3 dictionaries with membership masks) written by an independent writer; their converted '
                'content and scores are compared with what the generated file says. The known answer for the shipped file is a regression oracle.',
        'technique': 'bounded sweep of the real reader/converter: the shipped model file (every truncation, recorded known answer) and seeded synthetic KyTea binaries with an independent reference (labelled stand-in, not proof); plus Verus contracts on three per-item blocks of the conversion extracted from /repo on every run',
    },
    'C20': {
        'level': 'exploration',
        'text': 'BOUNDED stand-in (process-level behaviour of main()): the predict and evaluate binaries are built from /repo on every run and executed '
                'under every flag combination of the statement on fixed inputs; predict\'s stdout is compared byte for byte with the library pipeline '
                '(normalise unless --no-norm, predict, filters, tags, copy boundaries/tags to the original line, write; score blocks after their line), '
                'evaluate\'s output with an independent implementation of the character confusion counts and Nagata\'s word matching.',
        'design_ref': 'DESIGN.md section 5.C20',
        'note': 'Three genuine defects found and fixed: score block before the newline in --no-norm mode (0cf602b), --tag-scores without '
                '--predict-tags crashed and a tag-score block was printed for rejected input (e250be9), evaluate --no-norm compared the reference tags '
                'with themselves (69f449f). Not a proof; bound stated in evidence.',
        'technique': 'bounded process-level comparison of the real binaries with the library pipeline (labelled stand-in, not proof)',
    },
    'C13': {
        'level': 'proof',
        'text': 'The predictor unit is verified under BOTH resolutions of the fix-weight-length feature (the extractor evaluates the cfg attributes) '
                'against the SAME contrib-based contracts, so the two layouts are observationally equal at every call site; the cache feature\'s '
                'id arithmetic and table lookup are proved. Both tiers add a bounded two-build comparison of the real crate.',
        'design_ref': 'DESIGN.md section 5.C13',
        'note': 'Other axes (charwise-pma, portable-simd, std, cache table contents) are not under contract; both tiers additionally build the real crate twice '
                '(default features vs. std+tag-prediction only) and compare 1200 seeded outcomes (bounded).',
        'technique': TECH + '; same contracts discharged under two cfg resolutions',
    },
    'C14': {
        'level': 'proof',
        'text': 'trim_end_zeros returns the shortest prefix that drops only zeros; From<Vec<i32>> zero-pads to the fixed length; lemma: decoding the '
                'encoding of any Fixed array gives the same array, and a Variable vector decodes to a layout denoting the same positional function; '
                'deserialize_from_slice_unchecked returns exactly data[size..]; unit E_codec proves that PredictorData::encode and borrow_decode '
                'process the same five items in the same order under an item-stream model of bincode.',
        'design_ref': 'DESIGN.md section 5.C14',
        'note': 'ASSUMED: bincode leaf codecs (each item decodes to what was encoded), SerializableHashMap encoding order independence, daachorse (de)serialisation.',
        'technique': TECH + '; encode/decode pair as lemma over two function contracts',
    },
    'C18': {
        'level': 'proof',
        'text': 'Every unchecked or panicking access inside the units under contract is an explicit obligation discharged for all inputs: '
                'get_unchecked/get_unchecked_mut are renamed to verified checked twins (R2), debug_asserts are kept as obligations where expressible, '
                'slice ranges, str slicing at character boundaries (lemma: byte offsets from the position map are char boundaries), tag-slot arithmetic.',
        'design_ref': 'DESIGN.md section 5.C18',
        'note': 'Covers: Sentence accessors/iterators, both parsers, write_tokenized_text (as_mut_vec bytes proved valid UTF-8), KyteaWsConstFilter, '
                'SplitLinebreaksFilter, ConcatGraphemeClustersFilter, predictor kernel, cached type scorer, predict_tags, and the automaton-driven scorers (against an assumed '
                'daachorse iterator contract). The unchecked slice and range fill of the grapheme filter are proved in range against the assumed contract of the unicode-segmentation call. Not covered: feature configurations other than default '
                'and fix-weight-length off; write_partial_annotation_text contains no unchecked operation (it is proved total in W_pawriter under C04). Both tiers also run the sweeps on a build with debug assertions (library UB checks on).',
        'technique': TECH + '; unchecked -> checked twin with bounds precondition',
    },
}

NOT_APPLICABLE = {
}


PENDING = []


def main():
    for k in PENDING:
        if k not in CHECKS:
            NOT_APPLICABLE[k] = 'check not built yet in this commit (planned, DESIGN.md section 5); not claimed until its contracts verify'
    checks = []
    for pid in sorted(CHECKS):
        c = CHECKS[pid]
        checks.append({
            'property_id': pid,
            'quick_cmd': './check %s --tier quick' % pid,
            'thorough_cmd': './check %s --tier thorough' % pid,
            'evidence_file': '/verif/evidence/%s.json' % pid,
            'replay_cmd_template': './check %s --replay {path}' % pid,
            'engine': 'verus-contracts',
            'level_claimed': {'category': c['level'], 'text': c['text'], 'design_ref': c['design_ref']},
            'level_note': c['note'],
            'technique': c['technique'],
        })
    na = [{'property_id': k, 'reason': v} for k, v in sorted(NOT_APPLICABLE.items()) if k not in CHECKS]
    m = {
        'version': 1,
        'setup_cmd': './setup.sh',
        'hooks': {
            'guard': 'vaporetto_verif',
            'enable': 'RUSTFLAGS="--cfg vaporetto_verif" when the driver (and setup.sh) build /verif/replay; Verus reads source text and needs no hook. Hooks: '
                      '8f78040 Trainer::verif_examples (decoded training examples, c10 sweep); 8d92f65 VERIF_LEARNED (learned quantised boundary weights, c09 sweep); '
                      '87b66b3 VERIF_TAG_LEARNED (learned quantised tag weights, c12 sweep)',
            'baseline_off_cmd': 'cd /repo && cargo test --workspace --no-fail-fast --offline',
            'source_commits': HOOK_COMMITS,
            'add_only': True,
        },
        'engines': [{
            'name': 'verus-contracts', 'path': '/verif/check', 'serves_properties': sorted(CHECKS),
            'kind_free_text': 'functions re-extracted from /repo on every run (vlib/extract.py), contracts from contracts/*.vc spliced in, '
                              'Verus 0.2026.09.13 / Z3 discharges every obligation; replay crate turns a failed obligation into a concrete input; '
                              'Kani harnesses (thorough tier) are bounded stand-ins only',
        }],
        'checks': checks,
        'not_applicable': na,
        'notes': 'Exit 2 from a check means UNDECIDED (lost anchor, unsupported construct, rlimit, vacuity guard) and never carries a VIOLATION line. '
                 'known_findings.txt lists fixed/open findings. DESIGN.md explains every unit.',
    }
    json.dump(m, open(os.path.join(HERE, 'MANIFEST.json'), 'w'), indent=1)
    print('MANIFEST.json written: %d checks, %d not_applicable' % (len(checks), len(na)))


HOOK_COMMITS = ['8f78040fda45c73f5cddb1615763e211f440821b', '8d92f65499c518cd6ad2fc524e865ad037eb0e81', '87b66b35432e5e45e483916e54ffba70e089c90a']

if __name__ == '__main__':
    main()
