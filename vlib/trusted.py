"""Mechanical scan of an assembled Verus file for every unchecked assumption.
Each occurrence must be covered by a `//@ trusted <name>: <what is assumed>` line of the unit;
an occurrence without a line => UNDECIDED (the allow-list is the committed trusted base)."""
import re

PATTERNS = [
    (r'\bassume\s*\(', 'assume'),
    (r'\badmit\s*\(', 'admit'),
    (r'#\[verifier::external_body\]', 'external_body'),
    (r'\bassume_specification\b', 'assume_specification'),
    (r'#\[verifier::exec_allows_no_decreases_clause\]', 'no_decreases'),
    (r'#\[verifier::external\]', 'external'),
    (r'#\[verifier::external_fn_specification\]', 'external_fn_specification'),
    (r'#\[verifier::external_type_specification\]', 'external_type_specification'),
    (r'#\[verifier::assume_termination\]|exec_assume_termination', 'assume_termination'),
    (r'#\[verifier::accept_recursive_types', 'accept_recursive_types'),
    (r'#\[verifier::truncate\]|#\[verifier\(truncate\)\]', 'truncate'),
    (r'\buninterp\s+spec\s+fn\b', 'uninterp'),
    (r'\baxiom\s+fn\b|broadcast\s+axiom', 'axiom'),
]


def _assume_spec_name(code):
    i = code.find('assume_specification') + len('assume_specification')
    while i < len(code) and code[i].isspace():
        i += 1
    if i < len(code) and code[i] == '<':
        depth = 0
        while i < len(code):
            if code[i] == '<':
                depth += 1
            elif code[i] == '>' and code[i - 1] != '-':
                depth -= 1
                if depth == 0:
                    i += 1
                    break
            i += 1
    j = code.find('[', i)
    if j < 0:
        return None
    depth = 0
    k = j
    while k < len(code):
        if code[k] == '[':
            depth += 1
        elif code[k] == ']':
            depth -= 1
            if depth == 0:
                return code[j + 1:k].strip()
        k += 1
    return None


def scan(path, allow_lines):
    text = open(path, encoding='utf-8').read()
    lines = text.split('\n')
    allow = {}
    for a in allow_lines:
        name, _, desc = a.partition(' -- ')
        allow[name.strip()] = desc.strip()
    found = []
    problems = []
    used = set()
    for idx, line in enumerate(lines):
        code = re.sub(r'/\*.*?\*/', '', line)
        if code.lstrip().startswith('//'):
            continue
        code = code.split('//')[0]
        for rx, kind in PATTERNS:
            if not re.search(rx, code):
                continue
            # name = the next fn/struct/const/type identifier, or the bracketed path of assume_specification
            name = None
            if kind == 'assume_specification':
                name = _assume_spec_name(code)
            elif kind in ('assume', 'admit'):
                # the enclosing fn
                for k in range(idx, -1, -1):
                    m = re.search(r'\bfn\s+(\w+)', lines[k])
                    if m:
                        name = kind + ' in ' + m.group(1); break
            else:
                for k in range(idx, min(idx + 6, len(lines))):
                    m = re.search(r'\b(?:fn|struct|enum|const|type|trait)\s+(\w+)', re.sub(r'/\*.*?\*/', '', lines[k]))
                    if m:
                        name = m.group(1); break
            if name is None:
                problems.append('%s at assembled line %d has no recognisable name' % (kind, idx + 1))
                continue
            if name in allow:
                used.add(name)
                entry = '%s %s — %s' % (kind, name, allow[name])
                if entry not in found:
                    found.append(entry)
            else:
                problems.append('%s `%s` (assembled line %d) is not in the unit\'s trusted allow-list' % (kind, name, idx + 1))
    for name in allow:
        if name not in used and not name.startswith('note'):
            # informational trusted lines (e.g. extraction facts) are reported as-is
            found.append('declared: %s — %s' % (name, allow[name]))
    return found, problems
