"""Which units decide which property. Each unit = (contract file, variant, output tag)."""

PROPS = {
    'C02': {
        'units': [('contracts/S_tok.vc', None, 'S_tok'), ('contracts/W_writer.vc', None, 'W_writer')],
        'replay': 'c02',
        'replay_scope': 'all 3^k label vectors, k <= 9, over an ASCII text, a multi-byte text, a text with exactly one 2-byte character and a text of the characters the tokenized format escapes (slash, space, backslash), each on a plain sentence and on one that was predicted and tagged first and then relabelled by hand; iter_tokens spans/surfaces and write_tokenized_text vs a reference written from the statement',
        'not_covered': [],
        'assumptions': [],
    },
    'C03': {
        'units': [('contracts/S_parse.vc', None, 'S_parse'), ('contracts/S_tok.vc', None, 'S_tok'), ('contracts/W_writer.vc', None, 'W_writer'), ('contracts/R_tokrt.vc', None, 'R_tokrt')],
        'replay': 'c03',
        'replay_scope': '30000 pseudo-random fully segmented sentences (1-5 characters over {a, space, /, backslash, multi-byte}, 0-3 tag slots with absent / delimiter-bearing / multi-byte tags): write -> from_tokenized -> compare text, labels, per-token tags up to trailing absent; plus write-after-parse idempotence on every string of length <= 6 over the format alphabet that the parser accepts; since round 11 the alphabet also holds CR, LF and TAB and two tags end in CR / are LF; since round 14 tags are stored borrowed and owned in turn',
        'not_covered': [
            'tags are compared per TOKEN (the row of the token\'s last character, which is what Token::tags returns and what the format can carry); tag slots on characters that do not end a token are not written and come back absent',
            'the proviso of the statement is a precondition: tags present in the table are non-empty and NUL-free, the sentence has no unknown boundary (an empty tag is written as an empty field and read back as absent)',
            'update_tokenized carries the same contract as from_tokenized (proved in S_parse); the composition lemmas are stated with from_tokenized',
        ],
        'assumptions': [],
    },
    'C04': {
        'units': [('contracts/S_parse.vc', None, 'S_parse'), ('contracts/W_pawriter.vc', None, 'W_pawriter'), ('contracts/R_part.vc', None, 'R_part')],
        'replay': 'c04',
        'replay_scope': '30000 pseudo-random sentences (1-5 characters over {a, b, space, /, backslash, -, |, multi-byte}, labels from {boundary, not a boundary, unknown}, 0-3 tag slots on EVERY character with absent / delimiter-bearing / multi-byte tags): write_partial_annotation_text -> from_partial_annotation -> compare text, labels, per-character tags up to trailing absent; since round 11 the alphabet also holds CR and LF and one tag ends in CR; since round 14 tags are stored borrowed and owned in turn',
        'not_covered': [
            'the proviso is a precondition: tags present in the table are non-empty (an empty tag is written as an empty field and read back as absent); NUL inside a tag is not excluded by the proof (the parser accepts it)',
            'update_partial_annotation carries the same contract as from_partial_annotation (proved in S_parse); the composition is stated with from_partial_annotation',
        ],
        'assumptions': [],
    },
    'C05': {
        'units': [('contracts/S_raw.vc', None, 'S_raw'), ('contracts/S_parse.vc', None, 'S_parse')],
        'replay': 'c05',
        'replay_scope': 'every pair (first update, optional reset_tags, second update) over 3 formats x 40 small inputs (escapes, NUL, delimiters, multi-byte); compared with the fresh constructor; writers/iterators/accessors exercised; since round 11: 13 more inputs (ASCII around the letter ranges, class-edge characters, trailing CR) and the character types of every parsed sentence compared with the library classification (CharacterType::get_type) of its characters',
        'not_covered': [
            'that the parsed raw text / labels / tags equal the annotated input (content equality) is C03/C04 and is not claimed; proved here: totality, termination, and that every output is consistent with the parsed text (types, position maps, lengths, tag-slot count)',
            '"every accessor, writer and iterator works": accessors and the token iterator are proved here / in S_tok, the two writers in units W_writer (C02/C03) and W_pawriter (C04)',
            'Sentence.tag_scores is not part of the view: update_* do not clear it (stale candidates are only observable through Token::tag_candidates before the next fill_tags)',
        ],
    },
    'C07': {
        'units': [('contracts/M_model.vc', None, 'M_model')],
        'functions': ['read_slice', 'read', 'write', 'to_vec', 'model_magic', 'MODEL_MAGIC'],
        'replay': 'c07',
        'replay_scope': 'resources/model.bin: every truncation point through read_slice; 25 header corruptions; 4 trailing-byte lengths incl. re-serialisation equality; Model::read through readers returning at most k bytes per call (9 values of k), failing after k bytes and ending after k bytes (every k); Model::write into a writer failing after k bytes (every k); since round 12 a model of 2,000 and of 300,000 (thorough: 1,500,000) dictionary records and n-grams read back from a slice and from a reader',
        'not_covered': [
            'symmetry of the derive(Encode, Decode) implementations (code generated by bincode macros in an external crate): the round-trip postcondition of read_slice and the completeness clause of read are proved UNDER the explicitly assumed codec inverse / decodable predicate',
            'std::io::Read/Write are modelled by an assumed trait contract (stream of bytes that may end or fail anywhere; read may be short, read_exact/write_all are all-or-error)',
            'Model::write takes the writer by value, so what was written is not expressible as a postcondition; only totality is proved (what to_vec returns is proved: magic ++ enc(model))',
        ],
    },
    'C19': {
        'units': [('contracts/M_model.vc', None, 'M_model')],
        'functions': ['replace_dictionary', 'dictionary', 'tag_models', 'new', 'get_word', 'get_weights', 'get_comment', 'chars_count', 'lemma_chars_le_bytes'],
        'replay': ['c19', 'c01'],
        'replay_scope': '10 words x 8 weight counts for the record rule; 4 replacement dictionaries on resources/model.bin with byte-for-byte restore check; score-difference clause on 150 seeded models against the brute-force linear model; the manipulate_model binary built from /repo: --dump-dict then --replace-dict with the unmodified dump on 16 dictionaries (shipped, empty, awkward words / comments with commas, quotes, leading / trailing / inner spaces, tab, newline, ZWJ emoji, a leading hash sign) reproduces the model byte for byte, and a record with a wrong weight count is rejected; tool sweep since round 11: the dump of each dictionary is also put into ANOTHER model (two-word dictionary) and must give the model holding the dumped dictionary (an empty dump empties it); since round 12 records with weights that need all 32 bits and records with only zero weights, in the tool sweep and in the replace check; since round 13 the dump column names (word, weights) as the first dictionary words; since round 14 formula-like cells (=, +, -, @ and quote-prefixed ones)',
        'not_covered': [
            'the score-difference clause is the composition of this frame with the C01 chain (dictionary entries enter the score only through contrib terms); the composition itself is not a discharged obligation',
        ],
    },
    'C15': {
        'units': [('contracts/F_filters.vc', None, 'F_filters'), ('contracts/F_tagger.vc', None, 'F_tagger'), ('contracts/S_tok.vc', None, 'S_tok')],
        'replay': 'c15',
        'replay_scope': 'all boundary vectors {W,N,U}^(min(n-1,7)) over 18 texts x 6 character types for the character-type filter; line-break filter against its rule (incl. CR/LF at the very end); grapheme filter: only-clears, idempotence, frame, 8 known-answer cluster boundaries (ZWJ, skin tone, spacing mark, prepend, combining mark, regional indicators); pattern tagger against a reference written from the statement on 12 sentences (tokenized and partial-annotation lines, so with unknown boundaries; present / absent / trailing-absent tags) x 4 rule tables (empty, full, rows shorter / longer than the tag width, rows with absent entries, surfaces that are not tokens) with frame and idempotence; built with debug assertions so out-of-range unchecked accesses abort; since round 14 five more texts with VT, FF, NEL, LS, PS and characters whose low byte is CR / LF',
        'not_covered': [
            'ConcatGraphemeClustersFilter::filter is proved against an ASSUMED segmentation: `first_cluster` (character count of the first extended grapheme cluster) is uninterpreted with one axiom (1 <= count <= length on non-empty text) and the `.graphemes(true).next().map(..)` chain is an external_body twin returning (byte length, character count) of that cluster; that unicode-segmentation really implements UAX #29 is checked by the bounded sweep only (8 known-answer cluster boundaries)',
            'PatternMatchTagger::filter is proved against an ASSUMED contract of hashbrown HashMap::get (Some(row) iff the surface is a key; the table is an uninterpreted mathematical map) and of the token iterator / Token accessors (proved in unit S_tok under the same contract files)',
        ],
    },
    'C16': {
        'units': [('contracts/N_fullwidth.vc', None, 'N_fullwidth')],
        'replay': ['c16', 'c16t'],
        'replay_scope': 'c16: all 1,112,064 Unicode scalar values (exhaustive) + positional independence on 7 mixed strings; c16t (BOUNDED stand-in for the Tantivy clause, own replay crate): 8 models (resources/model.bin + seeded random ones; 40 thorough) x 34 texts (empty, whitespace only, CR/LF, half-width, combining marks, ZWJ emoji, texts without ASCII that contain non-ASCII keys of the normaliser, seeded random; 80 thorough) x 8 wsconst strings x both constructors (new, and deserialize_unchecked from the bytes of a serialised predictor): tokens tile the original text from 0 to its length, offsets on character boundaries, token text = original substring, consecutive positions, breaks exactly where normalise + predict + line-break filter + configured filters break; since round 11 every ordered pair of interesting characters (every character the table changes, its image, all kana, combining and half-width sound marks, joiners, CR, LF): the image of the pair is the character-wise image; since round 15 every control character (U+0000..U+001F, U+007F..U+009F) must map to itself',
        'not_covered': [
            'the Tantivy token stream (tantivy crate, Arc<dyn SentenceFilter>) is not under contract: its clause is decided by the bounded sweep c16t only (labelled bounded); a text containing NUL makes the adapter panic (Sentence::from_raw rejects it) - not part of the sweep, the statement lists empty / multi-byte / CR-LF texts',
        ],
    },
    'C08': {
        'units': [('contracts/S_raw.vc', None, 'S_raw'), ('contracts/S_parse.vc', None, 'S_parse'), ('contracts/P_pred.vc', 'realpred', 'P_pred')],
        'replay': ['c08', 'c05'],
        'replay_scope': 'c08: ~2000 histories (all of length <= 2 over 20 operations, structured length-4, 1500 random of length 3..8) over updates in 3 formats, 6 predictors (with/without tags, score storing, seeded random models), fill_tags, reset_tags, filters, failed updates, each followed by update_raw(x); predict; [fill_tags] for 6 texts and compared with a fresh sentence; c05: every pair of updates without predictor; since round 15 histories that end in predict + fill_tags are followed by EVERY predictor, and every final text is also checked with all boundaries set to word boundaries before the tag fill (fill = 2)',
        'not_covered': [
            'one predictor used from many threads: Verus checks sequential code and Kani has no threads; that Predictor has no interior mutability is a type-level fact enforced by rustc (Send + Sync auto traits), not a contract',
            'Sentence.tag_scores is outside the view (see C05)',
        ],
    },
    'C01': {
        'units': [('contracts/P_pred.vc', 'realpred', 'P_pred'), ('contracts/T_cache.vc', None, 'T_cache'), ('contracts/C_scorers.vc', None, 'C_scorers')],
        'replay': 'c01',
        'replay_scope': 'seeded random well-formed models (suffix-related n-grams, words, windows 1..4, weight vectors shorter and longer than 8; every 5th seed a degenerate shape: no character n-grams, no type n-grams, no dictionary, or neither kind of n-gram; every 6th seed weights near the 16-bit limits, every 6th seed vectors longer than 8 that are zero except for their last / first entries; now and then a window of 127, 128, 200 or 255) x 6 texts of 1..12 mixed-width characters + 2 texts assembled from the model\'s own n-grams, words, tag tokens and tag n-grams; texts of even length are predicted twice in a row on the same sentence; every boundary score compared with the brute-force linear model; plain and tagging scorers; since round 10/11: entries whose weights cancel their own suffix entry, tag weight lists in any offset order, and in every fifth text one code point from the edges of the character classes; since round 12 complete suffix chains of three or four entries built on purpose (every third model, character and type n-grams), type n-grams realised in the model-derived texts, now and then a tag model with 288 candidate scores; since round 15 the sentence arrives with labels of its own (prediction must overwrite them), now and then a tag token of 21 / 22 equal multi-byte characters (63..88 bytes), and the first occurrence of each tag token is cut out by hand in texts that hold such a token or whose length is a multiple of 7',
        'not_covered': [
            'ALL scorer bodies are verified in unit C_scorers (CharScorerBoundary, TypeScorerBoundary, both *BoundaryTag add_scores, both add_tag_scores, the enum dispatch CharScorer/TypeScorer::add_scores; the cached scorer in T_cache) against ASSUMED contracts of daachorse::find_overlapping_no_suffix_iter (yields a fixed match sequence; each match is an occurrence of a known pattern ending inside the input; end() is the byte offset of a character end), of the SplitMix hash-map lookup, and an ASSUMED scorer_wf (what new() builds: one entry per pattern, Fixed entries inside the 7-slot padding); unit P_pred uses exactly the enum-level contracts proved there (shared contract text) with char_scores/type_scores left abstract',
            'Predictor::predict therefore requires pred_scores_ok (scorer tables well-formed; no i32 overflow for this text) and sentences shorter than 2^31 characters: stated ranges, not proved of Predictor::new',
            'that the reported match sequence is "the longest pattern ending at each position" and that merged entries carry the sum of their suffixes (so that the sum over matches equals the sum over ALL occurrences) is assumed, covered only by the bounded sweep',
            'CharWeightMerger/TypeWeightMerger::merge (BTreeMap + RefCell + string slicing) are outside Verus: that suffix merging makes the longest match carry the sum of its suffixes is covered only by the bounded sweep',
            'TypeScorerBoundaryCache::new is PROVED in T_cache as a whole function (postcondition: cache_wf — window, mask = 8^(2W)-1, one entry per id — and the table content: every id that spells a type sequence holds the sum, over the occurrences the automaton reports in that sequence, of the model weight at position 2W - end; other entries 0), with seqid_to_seq (accepted id == rolling id of the decoded sequence); ASSUMED there: the daachorse constructor call (replaced by a stub: one pattern per n-gram in model order, a fixed match sequence per haystack), find_overlapping_iter/next, usize::pow for base 8, no i32 overflow of the partial sums; the dispatch TypeScorer::new is PROVED to choose the cache only for windows 1..=3 (the nested all(..) over the tag n-gram models replaced by an assumed stub; TypeScorerBoundary::new and TypeScorerBoundaryTag::new opaque)',
        ],
    },
    'C06': {
        'units': [('contracts/P_pred.vc', 'realpred', 'P_pred'), ('contracts/C_scorers.vc', None, 'C_scorers'), ('contracts/S_tok.vc', None, 'S_tok')],
        'replay': 'c06',
        'replay_scope': 'candidate scores reported by Token::tag_candidates with score storing on compared with the same sums; seeded random tag models (0..3 categories, 0..3 candidates, char/type tag n-grams at rel positions 0..window, tag n-grams that are suffixes / extensions of each other for the same token) x small texts incl. texts assembled from the model\'s own strings; for a third of the texts tags are filled, some boundaries flipped by hand, and tags filled again (the reference follows the edited boundaries); every predicted tag compared with a brute-force argmax-first of bias + n-gram weights',
        'not_covered': [
            'add_tag_scores bodies are proved (C_scorers): candidate score j gains, for each relative position r < min(states.len()-pos, window+1), the weight stored for the automaton state of character pos+r (hash-map lookup assumed); that tag-weight merging along suffix chains makes this equal to the sum over ALL tag n-gram occurrences is assumed (bounded sweep only); proved in P_pred: the classifier kernel (arg-max, first on ties, class offsets, single/zero-candidate categories), bias addition, and all slice/index arithmetic of predict_tags',
            'three preconditions of the proved add_tag_scores bodies (token_id < tag_weight.len(), no i32 overflow, >= 8 score slots) are ASSUMED at predict_tags call sites (facts about Predictor::new)',
            'that each token slot of the sentence receives the kernel\'s result (composition through &mut sub-slices) is proved only as bounds + frame, not as a content postcondition',
        ],
    },
    'C09': {
        'units': [('contracts/X_train.vc', None, 'X_train')],
        'functions': ['translate_feature', 'expand_word', 'lemma_slot_meets_predictor', 'lemma_word_slots', 'chars_count', 'gen_features'],
        'replay': 'c09',
        'replay_scope': 'Trainer::new/add_example/train on 9 small corpora (plain, tagged, multi-candidate tags, no word boundary, only word boundaries, empty, one-character sentences, a larger one for dictionary features, one mixing partially and fully annotated sentences), all eight solvers in turn, also with a dictionary that repeats words; x every (char window, char n-gram, type window, type n-gram) in 1..3 plus 8 configurations with sizes of 0 (window 0 of one or both kinds, n-gram size 0) (1..5 thorough) x 3 dictionary settings: (through the verification hook VERIF_LEARNED) every boundary of 7-10 texts is scored by the trained model exactly as the learned quantised bias plus the learned quantised weight of each feature a reference extractor written from the statement finds for that boundary; every stored n-gram vector has the length of its own window, dictionary vectors have word length + 1 entries and the words of a length bucket share (left, inside, right), weights are 16-bit, the model re-reads and is usable; since round 11 a tenth corpus whose first annotated boundary is a word boundary and, on the two large corpora with character n-gram features, the direction check: the trained model agrees with its own training annotation on more than half of the boundaries; since round 12 window sizes 127, 128, 200, 255; since round 13 n-gram sizes far beyond the window and the short sentences ((0,3), (1,4), (1,5), (2,6), ...)',
        'not_covered': [
            'the quantisation itself (f64 division, to_int_unchecked) and the pairing of a feature with ITS liblinear coefficient through the feature-id map: floating point + FFI, outside Verus; proved is WHERE a given (feature, quantised weight) pair is stored and that this is the slot the predictor reads',
            'Trainer::train as a whole is not under contract: the two blocks are extracted from it by anchors (block extraction); the statements around them (liblinear calls, loop over the hash map, Model::new call) are dropped',
            'the equality "score of the trained model == sum of learned weights of the extracted features" is composed informally from: gen_features (proved, C10), the slot lemmas (proved here), the scorer bodies (proved in C_scorers against the assumed automaton) - the composition across units is not machine-checked',
        ],
        'assumptions': [],
    },
    'C10': {
        'units': [('contracts/X_train.vc', None, 'X_train')],
        'functions': ['gen_features', 'add_example', 'text_substring', 'str_to_char_pos', 'len', 'char_ngram', 'type_ngram', 'dict_word_left', 'dict_word_inside', 'dict_word_right', 'lemma_char_grams_l_mem', 'lemma_fviews_push'],
        'replay': 'c10',
        'replay_scope': '(a) through the verification hook Trainer::verif_examples (cfg vaporetto_verif): 7 (window, n-gram) configurations x 4 dictionary settings x 8 partially annotated sentences: the decoded examples (features with counts, label) equal a reference written from the statement (n-grams inside the window with relative positions, one dictionary feature per touching occurrence with bucketed length, one example per annotated boundary); (b) 5 configurations x 1..4 unannotated sentences added to a 6-sentence corpus: the number of registered features must not change and training must still succeed; since round 12 three more configurations with sizes of zero (feature-less rows are examples all the same)',
        'not_covered': [
            'the statements of add_example that number the features and build the sparse row (hashbrown entry API, f64 counts) are replaced by an assumed stub (R10 replace-range): proved is which examples are produced, with which label and which abstract features',
            'the dictionary automaton is assumed to report exactly the dictionary-word occurrences (daachorse semantics); proved is what gen_features does with each reported occurrence',
            'TagTrainer::add_example (called last) is opaque here (C12)',
        ],
        'assumptions': [],
    },
    'C11': {
        'level': 'exploration',
        'units': [('contracts/X_train.vc', None, 'X_train')],
        'replay': ['c09', 'c12'],
        'replay_scope': 'BOUNDED: Trainer::new/add_example/train on 9 small corpora (incl. a partially annotated one) x every (char window, char n-gram, type window, type n-gram) in 1..3 (1..5 in the thorough tier) plus 8 configurations with sizes of 0 x 3 dictionary settings (none, bucket 1, bucket 3 + tag dictionary) plus a dictionary with repeated words, all eight solvers in turn (partially annotated corpus included), 2 solvers: no panic; Ok models serialise, decode, re-read, are accepted by Predictor::new with and without tag prediction, predict and tag 7 texts, hold only 16-bit weights',
        'not_covered': [
            'totality of the liblinear-driven pipeline is NOT proved (FFI + floating point are outside Verus and Kani): the claim is the bounded sweep, labelled bounded; the discharged obligations of unit X_train (no overflow / no out-of-range index / no failing unwrap in gen_features, add_example, the weight-translation block and the dictionary expansion) are supporting evidence only',
            'tag_trainer.rs is not under contract',
        ],
        'assumptions': [],
    },
    'C12': {
        'level': 'exploration',
        'units': [('contracts/X_tagtrain.vc', None, 'X_tagtrain'), ('contracts/X_train.vc', None, 'X_train')],
        'replay': 'c12',
        'replay_scope': 'BOUNDED: 5 tagged corpora (one token with three context-dependent candidates; multi-candidate tags in two categories; absent tags in the middle, different numbers of tags per sentence, a token seen with and without tags; one category; a first sentence with fewer tag categories than later ones) x 9 (window, n-gram) configurations (three with a window of 0), dense and sparse (L1) solvers in turn x with/without a tag dictionary (tokens absent from the corpus, a token also in the corpus, an entry without tags): the decoded tag models list per token and category exactly the distinct tags of the reference written from the statement, bias and every stored score vector have one entry per trainable candidate, the tagger gives a single-candidate token that tag, a multi-candidate token one of its candidates, an unseen token none, and (through the verification hook VERIF_TAG_LEARNED) every stored tag score of every multi-candidate token of the training sentences equals the learned quantised bias plus the learned quantised weights of the reference tag features of that occurrence; since round 13 every tag feature that received a weight (hook) must be a feature the reference extractor finds at some occurrence of the token in the corpus',
        'not_covered': [
            'of tag_trainer.rs two pieces are under contract (unit X_tagtrain): TagTrainer::add_example (one example per token of a sentence with tag slots, carrying exactly the n-grams that contain the token, lie inside the sentence and end 0..window characters after it) and the tag-listing part of train_tag (block extraction `list_tags`, from `let n_tags = ...` to the end of the listing loop: the number of categories is the largest number of tag slots of any example, so the zip cuts nothing off; the list of every category is `listed(examples, c)` = the distinct tags observed in that category in order of first appearance — lemma_listed_props: each once, exactly the observed ones — and the id map gives the k-th listed tag the id k; `vec![HashMap::new(); n]` / `vec![vec![]; n]` and hashbrown contains_key / len / insert are ASSUMED twins); the rest of train / train_tag (liblinear training, f64 quantisation, BTreeMap grouping of the weights, default-tag insertion) is not: the claim is the bounded sweep, labelled bounded',
            'the quantisation itself (f64) is taken as given: the sweep compares the stored tag scores with the learned QUANTISED classifier (hook VERIF_TAG_LEARNED) applied to a reference of the tag features',
        ],
        'assumptions': [],
    },
    'C17': {
        'level': 'exploration',
        'units': [('contracts/K_kytea.vc', None, 'K_kytea')],
        'replay': 'c17',
        'replay_scope': 'BOUNDED: (b) 300 (3000 thorough) seeded synthetic KyTea binaries written by an independent writer (1-3 windows, 1-4 length buckets, 0-8 dictionaries with membership masks, words longer than the bucket count; every 5th model with the invalid type letter 0x04 in type n-grams, every 4th with dictionary weights near the i16 limits, every 3rd with 1-3 tag slots: global tag lists and models, per-entry tag lists and models): converted n-grams / type codes / bias / windows / dictionary vectors equal what the file says, five texts are scored as the brute-force linear model over the file\'s weights dictates, every 7th truncation is rejected; (a) the shipped model (resources/kytea-model.bin, 1707 bytes): KyteaModel::read on every proper prefix of the 1699 bytes the reader consumes must return an error (no panic); the complete file must read and convert, the converted model must equal the recorded known answer (replay/golden/kytea_converted.bin), decode, keep one weight vector of its own window per n-gram with type codes 1..6, word length + 1 weights per dictionary word, re-read, be accepted by the predictor, segment the documented sentence as documented, and score four texts as the brute-force linear model over the decoded weights; since round 11 the synthetic automata carry inherited outputs on non-entry states, as files written by KyTea do',
        'not_covered': [
            'of kytea_model.rs only three blocks of the conversion `TryFrom<KyteaModel> for Model` are under contract (unit K_kytea, block extraction: the per-item bodies of the three loops over dump_items()): the record built for one character n-gram (2w - n + 1 weights as the file assigns them), for one type n-gram (letters D/R/H/T/K/O mapped to codes 1..6, the invalid letter 0x04 skips the n-gram, any other letter rejects the model) and for one dictionary word (left / inside / right weights summed over the dictionaries whose membership bit is set, at the length bucket min(len, dict_n) - 1); their preconditions (n-gram fits the window, enough stored weights, 1..8 dictionaries, non-empty word) are facts about a well-formed file ASSUMED at the call site; the reader (generic BufRead stack, f64), the trie walk dump_items, and the code around the blocks (ok_or_else chains, Model::new call) are decided by the bounded sweep only',
            'the known answer for the shipped file is recorded from the pinned tree; it is a regression oracle for this file. The synthetic models have no subword dictionary and no feature lookup inside their tag models; their binary layout is what an independent writer derived from the reader',
        ],
        'assumptions': [],
    },
    'C20': {
        'level': 'exploration',
        'units': [],
        'replay': 'c20',
        'replay_scope': 'BOUNDED: target_cli/release/predict built from /repo, run on a 21-line stdin (empty line, NUL, spaces, slashes, backslash; also fed with CR LF line ends and no final newline; half-width characters incl. those whose full-width form has the same byte length, full-width digits, combining marks, kanji runs of known words) with resources/model.bin under all 16 combinations of {--no-norm, --predict-tags, --scores, --tag-scores} x 5 --wsconst settings (none, D, G, K R, D K): stdout compared byte for byte with the library pipeline of the statement (one tokenised line per input line whose surfaces are the original text, empty line for empty/rejected input, score block and tag-score block after their line in one layout); evaluate on a 9-line reference (mis-segmented last word followed by correct sentences and vice versa) under {char, word} x {--predict-tags} x {--no-norm} x 4 --wsconst settings: counts, precision, recall, F1 compared with an independent implementation of the character confusion counts and the Nagata word matching; since round 12 evaluate also runs on the shipped model stripped of its tag models and on a reference with one line of 190,000 characters; since round 15 two more reference lines whose white space belongs to the sentence (leading U+3000, trailing escaped space)',
        'not_covered': [
            'main() of predict/evaluate is not under contract (stdin/stdout, clap, zstd): the claim is the bounded process-level comparison, labelled bounded',
            'one model (resources/model.bin), fixed inputs; train, convert_kytea_model and manipulate_model are not exercised',
        ],
        'assumptions': [],
    },
    'C13': {
        'units': [('contracts/P_pred.vc', 'realpred', 'P_pred'), ('contracts/P_pred.vc', 'realpred+nofix', 'P_pred_nofix'), ('contracts/T_cache.vc', None, 'T_cache')],
        'replay': ['c01', 'c13'],
        'replay_scope': 'c01: the seeded model sweep on the default-feature build against the brute-force linear model; c13: the same seeded outcomes (200 models, degenerate shapes included, x 7 texts) produced by two builds of the real crate (default features vs. std+tag-prediction only: no cache, no fixed-length weights, byte-wise automaton) and, in the thorough tier, by three more builds with exactly one of cache-type-score / fix-weight-length / charwise-pma switched on, and by two builds WITHOUT tag-prediction (all other default features / none of them) whose score vectors and boundaries are compared and inside which the brute-force reference sweep c01 runs as well; score vectors, boundaries and tags compared',
        'not_covered': [
            'cache-type-score: only the cached scorer\'s id arithmetic and table lookup are proved; equality of the table with the uncached scorer is assumed (table built by a daachorse automaton)',
            'charwise-pma (daachorse internals), portable-simd (nightly core::simd), std (bincode I/O) are not under contract; exercised only by the bounded multi-build sweep where buildable (no build without std, none with portable-simd: nightly only; builds without tag-prediction only in the thorough tier)',
        ],
    },
    'C14': {
        'units': [('contracts/P_pred.vc', 'realpred', 'P_pred'), ('contracts/E_codec.vc', None, 'E_codec')],
        'replay': 'c14',
        'replay_scope': 'seeded random models: serialize_to_vec / deserialize_from_slice_unchecked with 0..300 trailing bytes; identical scores, boundaries, tags on the C01 texts; remainder equals the trailing bytes',
        'not_covered': [
            'proved (E_codec): PredictorData::encode writes exactly five items (char scorer bytes, type scorer bytes, bias, tag-predictor map, n_tags) and borrow_decode consumes exactly those five in the same order, leaving the rest of the stream - under an ASSUMED item-stream model of the bincode Encoder/Decoder and assumed leaf codecs',
            'proved (E_codec): WeightVector::encode writes exactly one item - the vector itself for Variable, the vector without its trailing zeros (`trimmed`, pinned by trim_end_zeros\' contract) for Fixed - and WeightVector::decode consumes one item and rebuilds the vector with From<Vec<i32>>; lemma_wv_roundtrip: a Fixed vector, or a Variable one with more than 8 weights (the only shapes From produces), is read back as the same variant denoting the same sequence - under the same assumed item-stream model',
            'the scorers\' own Encode/BorrowDecode impls (pma bytes + weights), SerializableHashMap iteration-order independence and daachorse pma.serialize / deserialize_unchecked are external and assumed',
        ],
    },
    'C18': {
        'units': [('contracts/S_raw.vc', None, 'S_raw'), ('contracts/S_parse.vc', None, 'S_parse'), ('contracts/S_tok.vc', None, 'S_tok'), ('contracts/F_filters.vc', None, 'F_filters'),
                  ('contracts/P_pred.vc', 'realpred', 'P_pred'), ('contracts/T_cache.vc', None, 'T_cache'), ('contracts/C_scorers.vc', None, 'C_scorers'), ('contracts/W_writer.vc', None, 'W_writer')],
        'replay': ['c01', 'c06', 'c02', 'c15', 'c08', 'c14'],
        'replay_scope': 'the C01/C06/C02/C15/C08/C14 sweeps (prediction, tagging, token iteration, filters, reuse, prediction and tagging with a predictor deserialised from its own bytes) on the real crate; catches panics from out-of-range unchecked-twin sites that are bounds-checked in safe code',
        'not_covered': [
            'unchecked accesses inside the three automaton-driven add_scores / add_tag_scores bodies (guarded by facts about daachorse matches): assumed contracts only',
            'the grapheme filter\'s unchecked str slice and range fill are proved in range given the assumed contract of the unicode-segmentation call (first cluster is a non-empty prefix of the remaining text)',
            'feature configurations other than default and fix-weight-length off',
        ],
    },
}
