"""Which units decide which property. Each unit = (contract file, variant, output tag)."""

PROPS = {
    'C02': {
        'units': [('contracts/S_tok.vc', None, 'S_tok')],
        'replay': 'c02',
        'replay_scope': 'all 3^k label vectors, k <= 9, over an ASCII and a multi-byte text; iter_tokens spans/surfaces and write_tokenized_text vs a reference written from the statement',
        'not_covered': [],
        'assumptions': [],
    },
    'C05': {
        'units': [('contracts/S_raw.vc', None, 'S_raw'), ('contracts/S_parse.vc', None, 'S_parse')],
        'replay': 'c05',
        'replay_scope': 'every pair (first update, optional reset_tags, second update) over 3 formats x 40 small inputs (escapes, NUL, delimiters, multi-byte); compared with the fresh constructor; writers/iterators/accessors exercised',
        'not_covered': [
            'that the parsed raw text / labels / tags equal the annotated input (content equality) is C03/C04 and is not claimed; proved here: totality, termination, and that every output is consistent with the parsed text (types, position maps, lengths, tag-slot count)',
            'writers (write_tokenized_text / write_partial_annotation_text) are outside Verus; "every accessor, writer and iterator works" is proved for accessors and the token iterator (C02), and exercised only by the bounded sweep for writers',
            'Sentence.tag_scores is not part of the view: update_* do not clear it (stale candidates are only observable through Token::tag_candidates before the next fill_tags)',
        ],
    },
}
