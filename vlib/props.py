"""Which units decide which property. Each unit = (contract file, variant, output tag)."""

PROPS = {
    'C02': {
        'units': [('contracts/S_tok.vc', None, 'S_tok')],
        'replay': 'c02',
        'replay_scope': 'all 3^k label vectors, k <= 9, over an ASCII and a multi-byte text; iter_tokens spans/surfaces and write_tokenized_text vs a reference written from the statement',
        'not_covered': [],
        'assumptions': [],
    },
}
