//! C16, second clause (BOUNDED stand-in): the Tantivy token stream against the core pipeline on the real crates.
//! usage: vp-replay-tantivy search | replay <arg>
#[allow(dead_code)]
#[path = "../../replay/src/gen.rs"]
mod gen;

use tantivy::tokenizer::{TokenStream, Tokenizer};
use vaporetto::{CharacterBoundary, CharacterType, Model, Predictor, Sentence};
use vaporetto_rules::{
    sentence_filters::{ConcatGraphemeClustersFilter, KyteaWsConstFilter, SplitLinebreaksFilter},
    string_filters::KyteaFullwidthFilter,
    SentenceFilter, StringFilter,
};
use vaporetto_tantivy::VaporettoTokenizer;

const TEXTS: [&str; 20] = [
    "", "まぁ社長は火星猫だ", "これは12個のABCです", " ", "  \t ", "a\r\nb", "\n", "猫\n\n犬", "ｶﾞｷﾞ half-width ｱ", "１２３４５円", "x", "e\u{301}e\u{301}猫",
    "｢火星猫｣､まぁ良いだろう｡", "👨‍👩‍👧と猫", "火星猫\r", "a b  c",
    // texts WITHOUT any ASCII character that contain non-ASCII keys of the normaliser's table (the normalised form has
    // another character type, so the type filters merge / split differently)
    "コ－ヒ－を飲む", "ラ－メン―タ―ボ～", "｢ｶﾞ｣･｢ｷﾞ｣", "１－２―３",
];
const WSCONST: [&str; 8] = ["", "D", "G", "DR", "KG", "DRHTKOG", "H", "T"];

fn js(s: &str) -> String {
    let mut o = String::from("\"");
    for c in s.chars() {
        match c {
            '"' => o.push_str("\\\""),
            '\\' => o.push_str("\\\\"),
            '\n' => o.push_str("\\n"),
            '\r' => o.push_str("\\r"),
            '\t' => o.push_str("\\t"),
            c if (c as u32) < 0x20 => o.push_str(&format!("\\u{:04x}", c as u32)),
            c => o.push(c),
        }
    }
    o.push('"');
    o
}

fn model_bytes(m: usize) -> Vec<u8> {
    if m == 0 {
        std::fs::read("/repo/resources/model.bin").unwrap()
    } else {
        let mut r = gen::Rng(m as u64 * 7919 + 16);
        gen::gen_model(&mut r, false).to_bytes()
    }
}

fn text_of(m: usize, t: usize) -> String {
    if t < TEXTS.len() {
        TEXTS[t].to_string()
    } else {
        let mut r = gen::Rng((m * 1000 + t) as u64);
        let mut s = gen::gen_text(&mut r, 12);
        if t % 3 == 0 { s.push('\n'); }
        if t % 5 == 0 { s.insert(0, '\r'); }
        s
    }
}

/// break positions (byte offsets into the ORIGINAL text) of the core pipeline: normalise, predict, line-break filter, configured filters
fn core_breaks(p: &Predictor, text: &str, ws: &str) -> Vec<usize> {
    let norm = KyteaFullwidthFilter.filter(text);
    let mut s = Sentence::from_raw(norm).unwrap();
    p.predict(&mut s);
    SplitLinebreaksFilter.filter(&mut s);
    for c in ws.chars() {
        match c {
            'D' => KyteaWsConstFilter::new(CharacterType::Digit).filter(&mut s),
            'R' => KyteaWsConstFilter::new(CharacterType::Roman).filter(&mut s),
            'H' => KyteaWsConstFilter::new(CharacterType::Hiragana).filter(&mut s),
            'T' => KyteaWsConstFilter::new(CharacterType::Katakana).filter(&mut s),
            'K' => KyteaWsConstFilter::new(CharacterType::Kanji).filter(&mut s),
            'O' => KyteaWsConstFilter::new(CharacterType::Other).filter(&mut s),
            _ => ConcatGraphemeClustersFilter.filter(&mut s),
        }
    }
    let starts: Vec<usize> = text.char_indices().map(|(i, _)| i).collect();
    let mut out = vec![];
    for (i, b) in s.boundaries().iter().enumerate() {
        if *b == CharacterBoundary::WordBoundary {
            out.push(starts[i + 1]);
        }
    }
    out.push(text.len());
    out
}

fn check_inner(m: usize, t: usize, w: usize) -> Option<String> {
    let text = text_of(m, t);
    let ws = WSCONST[w];
    let bytes = model_bytes(m);
    let (model, _) = Model::read_slice(&bytes).ok()?;
    let tok = VaporettoTokenizer::new(model, ws).ok()?;
    if let Some(d) = check_tokenizer(tok, &text, ws, &bytes) {
        return Some(d);
    }
    // the other constructor: a tokenizer deserialised from the bytes of a serialised predictor must behave the same
    let (model3, _) = Model::read_slice(&bytes).ok()?;
    let ser = Predictor::new(model3, false).ok()?.serialize_to_vec().ok()?;
    let ser: &'static [u8] = Box::leak(ser.into_boxed_slice());
    let (tok2, rest) = match unsafe { VaporettoTokenizer::deserialize_unchecked(ser, ws) } { Ok(x) => x, Err(e) => return Some(format!("deserialize_unchecked rejects a serialised predictor: {}", e)) };
    if !rest.is_empty() {
        return Some("deserialize_unchecked leaves bytes of a serialised predictor unread".into());
    }
    check_tokenizer(tok2, &text, ws, &bytes).map(|d| format!("deserialised tokenizer: {}", d))
}

fn check_tokenizer(mut tok: VaporettoTokenizer, text: &str, ws: &str, bytes: &[u8]) -> Option<String> {
    // a tokenizer object is used for many texts: it first tokenises another text (consumed to the end), then the text
    // under test; nothing of the first may show in the second
    {
        let warm = if text.chars().count() % 2 == 0 { "まぁ社長は火星猫だ\r\nabc 123" } else { "x" };
        let mut st = tok.token_stream(warm);
        while st.advance() {}
    }
    let text = text.to_string();
    let mut stream = tok.token_stream(&text);
    let mut toks = vec![];
    while stream.advance() {
        toks.push(stream.token().clone());
    }
    if text.is_empty() {
        return if toks.is_empty() { None } else { Some("tokens for the empty text".into()) };
    }
    let mut at = 0usize;
    for (k, tk) in toks.iter().enumerate() {
        if tk.offset_from != at {
            return Some(format!("token {} starts at byte {} but the previous one ended at {}", k, tk.offset_from, at));
        }
        if tk.offset_to <= tk.offset_from || !text.is_char_boundary(tk.offset_from) || !text.is_char_boundary(tk.offset_to) {
            return Some(format!("token {} has offsets {}..{} (empty or not on character boundaries)", k, tk.offset_from, tk.offset_to));
        }
        if tk.text != text[tk.offset_from..tk.offset_to] {
            return Some(format!("token {} carries {:?}, the original substring is {:?}", k, tk.text, &text[tk.offset_from..tk.offset_to]));
        }
        if tk.position != k {
            return Some(format!("token {} has position {}", k, tk.position));
        }
        at = tk.offset_to;
    }
    if at != text.len() {
        return Some(format!("tokens end at byte {} of {}", at, text.len()));
    }
    let (model2, _) = Model::read_slice(bytes).ok()?;
    let p = Predictor::new(model2, false).ok()?;
    let want = core_breaks(&p, &text, ws);
    let got: Vec<usize> = toks.iter().map(|t| t.offset_to).collect();
    if want != got {
        return Some(format!("token ends {:?}, the core pipeline breaks at {:?}", got, want));
    }
    None
}

fn check(m: usize, t: usize, w: usize) -> Option<String> {
    let arg = format!("{}:{}:{}", m, t, w);
    println!("CASE {}", js(&arg));
    let r = match std::panic::catch_unwind(move || check_inner(m, t, w)) {
        Ok(r) => r,
        Err(_) => Some("panic in the token stream".to_string()),
    };
    r.map(|d| format!("{{\"replay_arg\":{},\"text\":{},\"wsconst\":{},\"actual\":{}}}", js(&arg), js(&text_of(m, t)), js(WSCONST[w]), js(&d)))
}

fn main() {
    std::panic::set_hook(Box::new(|_| {}));
    let args: Vec<String> = std::env::args().collect();
    let found = if args.len() >= 3 && args[1] == "replay" {
        let p: Vec<usize> = args[2].split(':').map(|x| x.parse().unwrap()).collect();
        check(p[0], p[1], p[2])
    } else {
        let thorough = std::env::var("VERIF_TIER").map_or(false, |t| t == "thorough");
        let (n_models, n_texts) = if thorough { (40, TEXTS.len() + 60) } else { (8, TEXTS.len() + 14) };
        let mut found = None;
        'outer: for m in 0..n_models {
            for t in 0..n_texts {
                for w in 0..WSCONST.len() {
                    if let Some(d) = check(m, t, w) {
                        found = Some(d);
                        break 'outer;
                    }
                }
            }
        }
        found
    };
    match found {
        Some(d) => { println!("COUNTEREXAMPLE {d}"); std::process::exit(1); }
        None => println!("NO-COUNTEREXAMPLE"),
    }
}
