use crate::{labels_from_str, sentence_with};
use vaporetto::CharacterBoundary as B;

/// Reference written from the property statement: the word-boundary-delimited segments that
/// contain no unknown boundary, in order, with their character spans.
fn reference(labels: &[B]) -> Vec<(usize, usize)> {
    let n = labels.len() + 1;
    let mut out = vec![];
    let mut s = 0;
    while s < n {
        let mut e = s + 1;
        while e < n && labels[e - 1] != B::WordBoundary {
            e += 1;
        }
        if (s..e - 1).all(|k| labels[k] != B::Unknown) {
            out.push((s, e));
        }
        s = e;
    }
    out
}

fn check(text: &str, labels: &[B]) -> Option<String> {
    let l: String = labels
        .iter()
        .map(|b| match b {
            B::WordBoundary => 'W',
            B::NotWordBoundary => 'N',
            B::Unknown => 'U',
        })
        .collect();
    let (t2, l2) = (text.to_string(), labels.to_vec());
    match std::panic::catch_unwind(move || check_inner(&t2, &l2)) {
        Ok(r) => r,
        Err(_) => Some(format!(
            "{{\"replay_arg\":{},\"text\":{},\"labels\":\"{}\",\"actual\":\"panic in iter_tokens/surface/write_tokenized_text\"}}",
            crate::js(&format!("{}|{}", text, l)), crate::js(text), l
        )),
    }
}

fn predictor() -> &'static vaporetto::Predictor {
    static P: std::sync::OnceLock<vaporetto::Predictor> = std::sync::OnceLock::new();
    P.get_or_init(|| {
        let bytes = std::fs::read("/repo/resources/model.bin").unwrap();
        let (m, _) = vaporetto::Model::read_slice(&bytes).unwrap();
        vaporetto::Predictor::new(m, true).unwrap()
    })
}

fn check_inner(text: &str, labels: &[B]) -> Option<String> {
    // the same labels on a plain sentence and on one that was predicted (and tagged) first and then relabelled by hand,
    // as a filter or a caller withdrawing decisions would: tokens depend on the labels only
    if let Some(d) = check_sentence(text, labels, sentence_with(text, labels)) { return Some(d); }
    let mut s = vaporetto::Sentence::from_raw(text.to_string()).unwrap();
    predictor().predict(&mut s);
    s.fill_tags();
    s.boundaries_mut().copy_from_slice(labels);
    let n = s.n_tags();
    // the written line of a tagged sentence carries tags: compare tokens only, and the line after dropping the tags
    s.reset_tags(0);
    let _ = n;
    check_sentence(text, labels, s).map(|d| d.replace("{\"replay_arg\"", "{\"after_predict\":true,\"replay_arg\""))
}

fn check_sentence(text: &str, labels: &[B], s: vaporetto::Sentence<'static, 'static>) -> Option<String> {
    let chars: Vec<char> = text.chars().collect();
    let got: Vec<(usize, usize, String)> = s
        .iter_tokens()
        .map(|t| (t.start(), t.end(), t.surface().to_string()))
        .collect();
    let want: Vec<(usize, usize, String)> = reference(labels)
        .into_iter()
        .map(|(a, b)| (a, b, chars[a..b].iter().collect()))
        .collect();
    let mut buf = String::new();
    s.write_tokenized_text(&mut buf);
    let want_line = want
        .iter()
        .map(|(_, _, w)| w.replace('\\', "\\\\").replace(' ', "\\ ").replace('/', "\\/"))
        .collect::<Vec<_>>()
        .join(" ");
    if got != want || buf != want_line {
        let l: String = labels
            .iter()
            .map(|b| match b {
                B::WordBoundary => 'W',
                B::NotWordBoundary => 'N',
                B::Unknown => 'U',
            })
            .collect();
        return Some(format!(
            "{{\"replay_arg\":{},\"text\":{},\"labels\":\"{}\",\"expected\":{},\"actual\":{},\"written\":{}}}",
            crate::js(&format!("{}|{}", text, l)), crate::js(text), l, crate::js(&format!("{:?}", want)), crate::js(&format!("{:?}", got)), crate::js(&buf)
        ));
    }
    None
}

pub fn search() -> Option<String> {
    // all 3^k label vectors, k <= 9, over an ASCII and a multi-byte text
    // ... a text with exactly one 2-byte character (byte length = characters + 1), and one made of the characters the
    // tokenized format escapes (the written line is compared with the iterator's tokens, escaped)
    for base in ["abcdefghij", "aあb漢cいdえeお", "Kölner x", "a/ \\b/c/"] {
        let chars: Vec<char> = base.chars().collect();
        for n in 1..=chars.len().min(10) {
            let text: String = chars[..n].iter().collect();
            let k = n - 1;
            let total = 3usize.pow(k as u32);
            for code in 0..total {
                let mut c = code;
                let mut labels = Vec::with_capacity(k);
                for _ in 0..k {
                    labels.push(match c % 3 {
                        0 => B::NotWordBoundary,
                        1 => B::WordBoundary,
                        _ => B::Unknown,
                    });
                    c /= 3;
                }
                if let Some(d) = check(&text, &labels) {
                    return Some(d);
                }
            }
        }
    }
    None
}

pub fn replay(input: &str) -> Option<String> {
    // input: text|labels
    let (text, labels) = input.split_once('|').expect("text|labels");
    check(text, &labels_from_str(labels))
}
