//! C12: tag models reflect exactly the tags seen in training (counterexample search / replay only).
//! Reference written from the statement: per token and tag category, the distinct tags observed for that token in the
//! corpus (or, for tokens absent from the corpus, in the tag dictionary), each once; score vectors sized to the number of
//! trainable candidates (categories with >= 2 tags); a token with one tag in a category always gets it, with several one
//! of them, an unseen token none.
use crate::gen::ModelData;
use std::collections::BTreeMap;
use vaporetto::{CharacterBoundary, Model, Predictor, Sentence, SolverType, Trainer};

const CORPORA: [&[&str]; 5] = [
    &["人/名詞/ヒト が/助詞/ガ 行っ/動詞/イッ た/助動詞/タ", "会/名詞/カイ を/助詞/ヲ 行っ/動詞/オコナッ た/助動詞/タ", "二 人/接尾辞/ニン で/助詞/デ 行っ/動詞/イッ た/助動詞/タ",
      "人/名詞/ジン と/助詞/ト 人/名詞/ヒト", "行っ/動詞/イッ て/助詞/テ 行っ/動詞/オコナッ た/助動詞/タ"],
    // absent tags in the middle, different numbers of tags per sentence, a token seen with and without tags
    &["a/X b//B1 c/Z/C1", "a/Y b//B2 c", "a/X/A1 b c/Z", "d e f"],
    // one category only, every token a single tag except one
    &["火星/名詞 猫/名詞 だ/助動詞", "猫/動物 が/助詞 鳴く/動詞"],
    // the FIRST sentence has fewer tag categories than later ones with the same tokens; the richest comes in the middle
    // ... and one-token sentences (no boundary at all, so no boundary example): their tags count like any others
    &["猫/名詞 が/助詞 鳴く/動詞", "猫/名詞/ネコ が/助詞/ガ 鳴く/動詞/ナク", "猫/動物/ネコ/cat が 鳴く/動詞/ナク/cry", "犬/名詞/イヌ が 鳴く", "鳥/名詞/トリ", "猫/生物", "犬/動物/ケン", "犬/動物 が/助詞"],
    // one token with three candidates decided by its neighbours (sparse solvers leave whole classes of an n-gram at 0)
    &["この/連体 人/ヒト は/助詞 火星/名詞 人/ジン だ/助動", "あの/連体 人/ヒト が/助詞 来/動詞 た/助動", "地球/名詞 人/ジン は/助詞 二/数 人/ニン だ/助動", "木星/名詞 人/ジン も/助詞 三/数 人/ニン だ/助動",
      "彼/代名 ら/接尾 は/助詞 五/数 人/ニン だ/助動", "その/連体 人/ヒト を/助詞 見/動詞 た/助動", "この/連体 人/ヒト も/助詞 一/数 人/ニン だ/助動"],
];
const TAG_DICT: &str = "犬/名詞/イヌ 人/代名詞/ヒト z//Z2 y";
// (char window, char n-gram, type window, type n-gram)
const CONFIGS: [(u8, u8, u8, u8); 9] = [(1, 1, 1, 1), (2, 2, 2, 2), (3, 3, 3, 3), (1, 3, 2, 1), (3, 1, 1, 3), (2, 3, 3, 2), (0, 1, 1, 1), (1, 1, 0, 2), (0, 2, 0, 1)];

thread_local! { static TRAINED: std::cell::Cell<usize> = std::cell::Cell::new(0); }

type Observed = BTreeMap<String, Vec<Vec<String>>>;

/// reference: distinct tags per token and category, in order of first observation
fn observe(sents: &[Sentence], dict: &[Sentence]) -> Observed {
    let mut obs: Observed = BTreeMap::new();
    let mut add = |obs: &mut Observed, s: &Sentence, only_new: &Option<Vec<String>>| {
        for t in s.iter_tokens() {
            if t.tags().is_empty() {
                continue;
            }
            if let Some(known) = only_new {
                // dictionary entries count only for tokens absent from the corpus, and only if they carry a tag
                if known.iter().any(|k| k == t.surface()) || !t.tags().iter().any(|x| x.is_some()) {
                    continue;
                }
            }
            let e = obs.entry(t.surface().to_string()).or_default();
            if e.len() < t.tags().len() {
                e.resize(t.tags().len(), vec![]);
            }
            for (c, tag) in t.tags().iter().enumerate() {
                if let Some(tag) = tag {
                    if !e[c].iter().any(|x| x == tag.as_ref()) {
                        e[c].push(tag.to_string());
                    }
                }
            }
        }
    };
    for s in sents {
        add(&mut obs, s, &None);
    }
    let in_corpus: Vec<String> = obs.keys().cloned().collect();
    // the first dictionary entry of a token wins
    let mut seen_in_dict: Vec<String> = vec![];
    for s in dict {
        for t in s.iter_tokens() {
            if seen_in_dict.iter().any(|k| k == t.surface()) {
                continue;
            }
            seen_in_dict.push(t.surface().to_string());
            if t.tags().is_empty() || in_corpus.iter().any(|k| k == t.surface()) || !t.tags().iter().any(|x| x.is_some()) {
                continue;
            }
            let e = obs.entry(t.surface().to_string()).or_default();
            e.resize(t.tags().len(), vec![]);
            for (c, tag) in t.tags().iter().enumerate() {
                if let Some(tag) = tag {
                    e[c].push(tag.to_string());
                }
            }
        }
    }
    let _ = &mut add;
    obs
}

fn check_inner(corpus: usize, cfg: usize, with_dict: bool) -> Option<String> {
    let (cw, cn, tw, tn) = CONFIGS[cfg];
    let sents: Vec<Sentence> = CORPORA[corpus].iter().map(|l| Sentence::from_tokenized(l).unwrap()).collect();
    let dict: Vec<Sentence> = if with_dict { vec![Sentence::from_tokenized(TAG_DICT).unwrap()] } else { vec![] };
    let want = observe(&sents, &dict);
    let mut t = match Trainer::new(cw, cn, tw, tn, Vec::<String>::new(), 0, &dict) { Ok(t) => t, Err(e) => return Some(format!("Trainer::new fails: {}", e)) };
    for s in &sents {
        t.add_example(s);
    }
    // dense and sparse solvers in turn (L1 solvers leave many weights at exactly 0)
    let solver = [SolverType::L2RegularizedL2LossSVC, SolverType::L1RegularizedL2LossSVC, SolverType::L1RegularizedLogistic][(corpus + cfg) % 3];
    let model = match t.train(0.01, 1.0, solver) {
        Ok(m) => m,
        // with the dense solver every corpus of this sweep trains (a failure there is reported); a sparse solver may
        // legitimately end with "all weights are zero" on a tiny corpus: an error is an allowed outcome (C11)
        Err(e) => return if (corpus + cfg) % 3 == 0 { Some(format!("training fails: {}", e)) } else { None },
    };
    let bytes = match model.to_vec() { Ok(b) => b, Err(e) => return Some(format!("model does not serialise: {}", e)) };
    let md = match ModelData::from_bytes(&bytes) { Some(m) => m, None => return Some("model bytes do not decode".into()) };
    TRAINED.with(|c| c.set(c.get() + 1));
    // 1. the listed tags
    let got: Observed = md.tag_models.iter().map(|m| (m.token.clone(), m.tags.clone())).collect();
    if got.len() != md.tag_models.len() {
        return Some("a token has two tag models".into());
    }
    // "exactly the distinct tags observed for that token, each once": compared per category as sorted lists (the statement
    // does not fix the order in which a category lists its tags; duplicates still show as a longer list)
    let sorted = |o: &Observed| -> Observed { o.iter().map(|(k, v)| (k.clone(), v.iter().map(|c| { let mut c = c.clone(); c.sort(); c }).collect())).collect() };
    if sorted(&got) != sorted(&want) {
        return Some(format!("listed tags differ: expected {:?} actual {:?}", want, got));
    }
    // 2. score vectors sized to the number of trainable candidates
    for m in &md.tag_models {
        let n_class: usize = m.tags.iter().map(|c| if c.len() >= 2 { c.len() } else { 0 }).sum();
        if m.bias.len() != n_class {
            return Some(format!("token {:?}: bias has {} entries, {} trainable candidates", m.token, m.bias.len(), n_class));
        }
        for d in &m.char_ngram_model.0 {
            for w in &d.weights {
                if w.weights.len() != n_class {
                    return Some(format!("token {:?}: char n-gram {:?} has a score vector of {} entries, {} trainable candidates", m.token, d.ngram, w.weights.len(), n_class));
                }
            }
        }
        for d in &m.type_ngram_model.0 {
            for w in &d.weights {
                if w.weights.len() != n_class {
                    return Some(format!("token {:?}: type n-gram {:?} has a score vector of {} entries, {} trainable candidates", m.token, d.ngram, w.weights.len(), n_class));
                }
            }
        }
    }
    // 3. behaviour of the tagger on the training sentences and on an unseen token
    let (m, _) = match Model::read_slice(&bytes) { Ok(x) => x, Err(e) => return Some(format!("model is not re-read: {}", e)) };
    let p = match Predictor::new(m, true) {
        Ok(p) => p,
        Err(e) => return Some(format!("Predictor::new rejects the trained model: {}", e)),
    };
    // the stored tag scores equal the learned quantised classifier applied to the trainer's tag features
    // (through the verification hook VERIF_TAG_LEARNED)
    #[cfg(vaporetto_verif)]
    {
        let learned = vaporetto::VERIF_TAG_LEARNED.lock().unwrap().clone();
        // the trainer's tag features are n-grams AROUND an occurrence of the token, named by their offset from the token's
        // last character: every feature that got a weight must be one that some occurrence of the token in the corpus has
        // (a feature filed under another offset is never seen by the tagger: the stored scores then miss its weight)
        {
            let mut possible: BTreeMap<String, std::collections::BTreeSet<String>> = BTreeMap::new();
            for line in CORPORA[corpus].iter() {
                let gold = Sentence::from_tokenized(line).unwrap();
                for tok in gold.iter_tokens() {
                    possible.entry(tok.surface().to_string()).or_default().extend(crate::trainref::tag_features(&gold, tok.start(), tok.end(), CONFIGS[cfg]));
                }
            }
            for (t, _, f, w) in learned.iter() {
                if f != "bias" && !possible.get(t).map_or(false, |set| set.contains(f)) {
                    return Some(format!("the tag classifier of token {:?} learned weight {} for feature {:?}, which no occurrence of the token in the corpus has (n-gram and offset from the token's last character)", t, w, f));
                }
            }
        }
        let (m2, _) = Model::read_slice(&bytes).ok()?;
        let mut p2 = Predictor::new(m2, true).ok()?;
        p2.store_tag_scores(true);
        for line in CORPORA[corpus].iter() {
            let gold = Sentence::from_tokenized(line).unwrap();
            let mut s = Sentence::from_raw(gold.as_raw_text().to_string()).unwrap();
            p2.predict(&mut s);
            s.boundaries_mut().copy_from_slice(gold.boundaries());
            s.fill_tags();
            for tok in s.iter_tokens() {
                let cands = match want.get(tok.surface()) { Some(c) => c, None => continue };
                let feats = crate::trainref::tag_features(&s, tok.start(), tok.end(), CONFIGS[cfg]);
                let got = tok.tag_candidates();
                let mut class = 0usize;
                for (c, cand) in cands.iter().enumerate() {
                    if cand.len() < 2 {
                        continue;
                    }
                    for (j, tag) in cand.iter().enumerate() {
                        let w = |name: &str| -> i64 {
                            learned.iter().filter(|(t, cl, f, _)| t == tok.surface() && *cl == class + j && f == name).map(|x| x.3 as i64).sum()
                        };
                        let expect = w("bias") + feats.iter().map(|f| w(f)).sum::<i64>();
                        let actual = got.get(c).and_then(|v| v.iter().find(|(t, _)| t == tag)).map(|x| x.1 as i64);
                        if actual != Some(expect) {
                            return Some(format!("token {:?} in {:?}, category {}, candidate {:?}: the learned quantised classifier gives {}, the stored tag score is {:?}", tok.surface(), line, c, tag, expect, actual));
                        }
                    }
                    class += cand.len();
                }
            }
        }
    }
    let mut lines: Vec<String> = CORPORA[corpus].iter().map(|l| l.to_string()).collect();
    lines.push("q 人 q".to_string());
    for line in &lines {
        let gold = Sentence::from_tokenized(line).unwrap();
        let mut s = Sentence::from_raw(gold.as_raw_text().to_string()).unwrap();
        p.predict(&mut s);
        s.boundaries_mut().copy_from_slice(gold.boundaries());
        debug_assert!(gold.boundaries().iter().all(|b| *b != CharacterBoundary::Unknown));
        s.fill_tags();
        for tok in s.iter_tokens() {
            let tags: Vec<Option<String>> = tok.tags().iter().map(|x| x.as_ref().map(|c| c.to_string())).collect();
            match want.get(tok.surface()) {
                None => {
                    if tags.iter().any(|x| x.is_some()) {
                        return Some(format!("token {:?} never seen in training is tagged {:?}", tok.surface(), tags));
                    }
                }
                Some(cands) => {
                    for (c, cand) in cands.iter().enumerate() {
                        let g = tags.get(c).cloned().flatten();
                        let ok = match cand.len() {
                            0 => g.is_none(),
                            1 => g.as_deref() == Some(cand[0].as_str()),
                            _ => g.as_ref().map_or(false, |x| cand.iter().any(|y| y == x)),
                        };
                        if !ok {
                            return Some(format!("token {:?} category {}: candidates {:?}, tagger gave {:?} (line {:?})", tok.surface(), c, cand, g, line));
                        }
                    }
                    for c in cands.len()..tags.len() {
                        if tags[c].is_some() {
                            return Some(format!("token {:?} category {} was never observed but is tagged {:?}", tok.surface(), c, tags[c]));
                        }
                    }
                }
            }
        }
    }
    None
}

fn check(corpus: usize, cfg: usize, with_dict: bool) -> Option<String> {
    let arg = format!("{}:{}:{}", corpus, cfg, with_dict as u8);
    crate::mark(&arg);
    let r = match std::panic::catch_unwind(move || check_inner(corpus, cfg, with_dict)) {
        Ok(r) => r,
        Err(_) => Some("panic while training / tagging".to_string()),
    };
    r.map(|d| format!("{{\"replay_arg\":{},\"config\":{},\"actual\":{}}}", crate::js(&arg), crate::js(&format!("{:?}", CONFIGS[cfg])), crate::js(&d)))
}

pub fn search() -> Option<String> {
    for corpus in 0..CORPORA.len() {
        for cfg in 0..CONFIGS.len() {
            for with_dict in [false, true] {
                if let Some(d) = check(corpus, cfg, with_dict) {
                    return Some(d);
                }
            }
        }
    }
    println!("STATS {{\"nontrivial\":{},\"rule\":\"every (corpus, configuration, with/without tag dictionary) is one case; non-trivial = training returned a model whose tag models were decoded and compared with the reference and whose tagger was run on the training sentences\"}}", TRAINED.with(|c| c.get()));
    None
}

pub fn replay(input: &str) -> Option<String> {
    let p: Vec<usize> = input.split(':').map(|x| x.parse().unwrap()).collect();
    check(p[0], p[1], p[2] != 0)
}
