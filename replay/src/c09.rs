//! C09 / C11: training on small corpora under many configurations (counterexample search / replay only; the deciding
//! step for the weight placement is the contract of the translation block of Trainer::train in unit X_train).
//! Checked on the real crate: training returns Ok or Err (never panics); a returned model serialises, re-reads, is
//! accepted by the predictor with and without tag prediction, predicts and tags texts without panicking, holds only
//! 16-bit weights, and every stored n-gram vector has the length of ITS OWN window (2 * window - len + 1).
use crate::gen::ModelData;
use vaporetto::{Model, Predictor, Sentence, SolverType, Trainer};

const CORPORA: [&[&str]; 10] = [
    &["火星 猫 だ", "これ は 猫 です", "a b c ab", "猫 と 火星 人", "ab c ab c", "です から 猫 だ"],
    &["火星/名詞 猫/名詞 だ/助動詞", "これ/代名詞 は/助詞 猫/名詞 です/助動詞", "猫/動物 だ/助動詞"],
    // no word boundary anywhere: every sentence is one token
    &["火星猫だ", "これは", "ab"],
    // only word boundaries
    &["a b c", "猫 だ"],
    // tokens with several tag candidates in two categories (the tag classifiers are really trained)
    &["人/名詞/ヒト が/助詞/ガ 行っ/動詞/イッ た/助動詞/タ", "会/名詞/カイ を/助詞/ヲ 行っ/動詞/オコナッ た/助動詞/タ", "二 人/接尾辞/ニン で/助詞/デ 行っ/動詞/イッ た/助動詞/タ",
      "人/名詞/ジン と/助詞/ト 人/名詞/ヒト", "行っ/動詞/イッ て/助詞/テ 行っ/動詞/オコナッ た/助動詞/タ"],
    // a corpus large enough for dictionary features to get non-zero weights (words of 1..5 characters)
    &["これ は テスト です", "それ は ペン です", "あれ は カメラ です か", "わたし は パン を たべる", "かれ は サッカー が すき だ", "ここ に ノート が ある",
      "テレビ を みる", "パン と ミルク を かう", "この カメラ は たかい", "あの ホテル に とまる", "バス で いく", "タクシー を よぶ", "まいにち コーヒー を のむ",
      "その ドア を あける", "トマト と レタス の サラダ", "あたらしい パソコン が ほしい", "アルバイト を さがす", "きのう アルバイト に いった"],
    // nothing to learn from: no sentence / only one-character sentences (no boundary at all)
    &[],
    &["a", "猫"],
    // partially annotated sentences mixed with fully annotated ones (unknown boundaries are no examples; tags on some tokens)
    &["P:火-星|猫 だ", "P:こ れ|は|猫/名詞|で-す", "火星 猫 だ", "P:a b|c", "P:猫 と 火-星|人/名詞", "P:で-す|か ら|猫|だ", "これ は 猫 です"],
    // the large corpus again, but its very FIRST annotated boundary is a word boundary (the learner numbers its classes in
    // the order in which they first appear: the word-boundary class is then class 0, not class 1)
    &["は これ テスト です", "を パン かう", "これ は テスト です", "それ は ペン です", "あれ は カメラ です か", "わたし は パン を たべる", "かれ は サッカー が すき だ", "ここ に ノート が ある",
      "テレビ を みる", "パン と ミルク を かう", "この カメラ は たかい", "あの ホテル に とまる", "バス で いく", "タクシー を よぶ", "まいにち コーヒー を のむ",
      "その ドア を あける", "トマト と レタス の サラダ", "あたらしい パソコン が ほしい", "アルバイト を さがす", "きのう アルバイト に いった"],
];
const TEXTS: [&str; 7] = ["火星猫だ", "これは猫です", "a", "abcab", "猫", "人が行った", "会を行って人と行った"];
// all eight solvers of the trainer; the first two are the ones most cases use
const SOLVERS: [SolverType; 8] = [SolverType::L1RegularizedL2LossSVC, SolverType::L2RegularizedLogistic, SolverType::L2RegularizedL2LossSVCDual,
    SolverType::L2RegularizedL2LossSVC, SolverType::L2RegularizedL1LossSVCDual, SolverType::CrammerSingerSVC, SolverType::L1RegularizedLogistic,
    SolverType::L2RegularizedLogisticDual];
/// corpus lines are tokenized text, or partial annotation when they start with "P:"
fn parse_line(l: &'static str) -> Sentence<'static, 'static> {
    match l.strip_prefix("P:") { Some(p) => Sentence::from_partial_annotation(p).unwrap(), None => Sentence::from_tokenized(l).unwrap() }
}

thread_local! { static TRAINED: std::cell::Cell<usize> = std::cell::Cell::new(0); }

fn check_inner(cw: u8, cn: u8, tw: u8, tn: u8, dict: u8, corpus: usize, solver: usize) -> Option<String> {
    let sents: Vec<Sentence> = CORPORA[corpus].iter().map(|l| parse_line(l)).collect();
    let words: Vec<String> = if dict > 0 {
        ["猫", "火星", "ab", "です", "これは", "は", "を", "が", "に", "と", "パン", "ペン", "バス", "テスト", "カメラ", "ノート", "サッカー", "タクシー", "コーヒー", "アルバイト", "ヌネ", "ムモヤユヨ"]
            .iter().map(|w| w.to_string()).collect()
    } else { vec![] };
    // dictionary bucket 2 = the same list with two words REPEATED (lists merged from several sources): the trainer may reject
    // it; if it accepts it, the model must still score as the learned weights of the extracted features dictate
    let words: Vec<String> = if dict == 2 { let mut w = words; w.push("猫".to_string()); w.push("テスト".to_string()); w } else { words };
    // tag dictionary: default tags for tokens that may be absent from the corpus
    let tag_dict: Vec<Sentence> = if dict == 3 { vec![Sentence::from_tokenized("猫/名詞/ネコ 犬/名詞/イヌ 行っ/動詞/イッ").unwrap()] } else { vec![] };
    let mut t = match Trainer::new(cw, cn, tw, tn, words.clone(), dict, &tag_dict) {
        Ok(t) => t,
        Err(_) => return None,
    };
    for s in &sents {
        t.add_example(s);
    }
    let word_refs: Vec<String> = words.clone();
    let model = match t.train(0.01, 1.0, SOLVERS[solver]) {
        Ok(m) => m,
        Err(e) => {
            if std::env::var("VP_STATS").is_ok() { println!("STAT err corpus={} {}", corpus, e); }
            return None; // an error is an allowed outcome
        }
    };
    if std::env::var("VP_STATS").is_ok() { println!("STAT ok corpus={}", corpus); }
    TRAINED.with(|c| c.set(c.get() + 1));
    let bytes = match model.to_vec() {
        Ok(b) => b,
        Err(e) => return Some(format!("trained model does not serialise: {}", e)),
    };
    // structure of the stored model
    let md = match ModelData::from_bytes(&bytes) {
        Some(m) => m,
        None => return Some("serialised model is not readable as model data".into()),
    };
    for d in &md.char_ngram_model.0 {
        let l = d.ngram.chars().count();
        if d.weights.len() + l != 2 * cw as usize + 1 {
            return Some(format!("character n-gram {:?} (length {}) has a weight vector of {} slots, its own window {} needs {}", d.ngram, l, d.weights.len(), cw, 2 * cw as usize + 1 - l));
        }
    }
    for d in &md.type_ngram_model.0 {
        let l = d.ngram.len();
        if d.weights.len() + l != 2 * tw as usize + 1 {
            return Some(format!("type n-gram {:?} (length {}) has a weight vector of {} slots, its own window {} needs {}", d.ngram, l, d.weights.len(), tw, 2 * tw as usize + 1 - l));
        }
    }
    let in16 = |w: &i32| (-32768..=32767).contains(w);
    if !in16(&md.bias)
        || md.char_ngram_model.0.iter().any(|d| !d.weights.iter().all(in16))
        || md.type_ngram_model.0.iter().any(|d| !d.weights.iter().all(in16))
        || md.dict_model.0.iter().any(|d| !d.weights.iter().all(in16))
    {
        return Some("a weight outside the signed 16-bit range".into());
    }
    // dictionary words: left weight, one and the same inside weight on every inner boundary, right weight; all words of a
    // length bucket (lengths >= the bucket count share the last one) carry the same three weights
    let mut buckets: std::collections::BTreeMap<usize, (i32, Option<i32>, i32)> = std::collections::BTreeMap::new();
    for d in &md.dict_model.0 {
        let n = d.word.chars().count();
        if d.weights.len() != n + 1 {
            return Some(format!("dictionary word {:?} has {} weights", d.word, d.weights.len()));
        }
        let inner = &d.weights[1..n];
        if inner.iter().any(|w| *w != inner[0]) {
            return Some(format!("dictionary word {:?}: inner boundaries carry different weights {:?}", d.word, d.weights));
        }
        let b = n.min(dict as usize);
        let cur = (d.weights[0], inner.first().copied(), d.weights[n]);
        match buckets.get(&b) {
            None => { buckets.insert(b, cur); }
            Some(prev) => {
                let inside_ok = match (prev.1, cur.1) { (Some(x), Some(y)) => x == y, _ => true };
                if prev.0 != cur.0 || prev.2 != cur.2 || !inside_ok {
                    return Some(format!("dictionary word {:?} (bucket {}) carries (left, inside, right) = {:?}, another word of the bucket {:?}", d.word, b, cur, prev));
                }
                if prev.1.is_none() { buckets.insert(b, (prev.0, cur.1, prev.2)); }
            }
        }
    }
    // the statement itself (through the verification hook): every boundary of every text is scored as the learned
    // quantised bias plus the learned quantised weight of each feature the trainer extracts for that boundary
    #[cfg(vaporetto_verif)]
    {
        let learned: std::collections::HashMap<String, i32> = vaporetto::VERIF_LEARNED.lock().unwrap().iter().cloned().collect();
        let bias = *learned.get("bias").unwrap_or(&0) as i64;
        let (m, _) = Model::read_slice(&bytes).ok()?;
        let p = Predictor::new(m, false).ok()?;
        let wr: Vec<&str> = word_refs.iter().map(|w| w.as_str()).collect();
        for text in TEXTS.iter().chain(CORPORA[corpus].iter().take(3)) {
            let raw: String = if text.starts_with("P:") { parse_line(text).as_raw_text().to_string() } else { match Sentence::from_tokenized(text) { Ok(s) => s.as_raw_text().to_string(), Err(_) => continue } };
            let mut s = Sentence::from_raw(raw.clone()).unwrap();
            p.predict(&mut s);
            let feats = crate::trainref::features(&s, (cw, cn, tw, tn), &wr, dict);
            let want: Vec<i64> = feats.iter().map(|fs| bias + fs.iter().map(|f| *learned.get(f).unwrap_or(&0) as i64).sum::<i64>()).collect();
            let got: Vec<i64> = s.boundary_scores().iter().map(|x| *x as i64).collect();
            if want != got {
                return Some(format!("scores of {:?}: the learned quantised weights of the extracted features give {:?}, the trained model gives {:?}", raw, want, got));
            }
        }
    }
    // direction of the learned function (the two large corpora, whatever class the learner saw first): the model is the one
    // learned FOR THE WORD-BOUNDARY class, so on its own training sentences it agrees with the annotation on more than half
    // of the boundaries (the mirrored model -- weights of the other class -- disagrees on more than half)
    // (only with character n-gram features: with type unigrams alone a correctly trained model is right on fewer than half)
    if (corpus == 5 || corpus == 9) && cw >= 1 && cn >= 1 {
        let (m, _) = Model::read_slice(&bytes).ok()?;
        let p = Predictor::new(m, false).ok()?;
        let (mut agree, mut total) = (0usize, 0usize);
        for gold in &sents {
            let mut s = Sentence::from_raw(gold.as_raw_text().to_string()).unwrap();
            p.predict(&mut s);
            for (a, b) in s.boundaries().iter().zip(gold.boundaries()) {
                total += 1;
                if a == b { agree += 1; }
            }
        }
        if std::env::var("VP_STATS").is_ok() { println!("STAT agree {}/{} corpus={} cfg={:?} solver={}", agree, total, corpus, (cw, cn, tw, tn, dict), solver); }
        if 2 * agree < total {
            return Some(format!("the trained model contradicts its own training annotation on {} of {} boundaries: it scores the class opposite to the word-boundary class", total - agree, total));
        }
    }
    // usable: re-read, both predictor flavours, predict + tag
    for tags in [false, true] {
        let (m, rest) = match Model::read_slice(&bytes) {
            Ok(x) => x,
            Err(e) => return Some(format!("trained model is not re-read: {}", e)),
        };
        if !rest.is_empty() {
            return Some("re-reading leaves bytes over".into());
        }
        let p = match Predictor::new(m, tags) {
            Ok(p) => p,
            Err(e) => return Some(format!("trained model rejected by Predictor::new(_, {}): {}", tags, e)),
        };
        for text in TEXTS {
            let mut s = Sentence::from_raw(text).unwrap();
            p.predict(&mut s);
            if tags {
                s.fill_tags();
            }
            let mut buf = String::new();
            s.write_tokenized_text(&mut buf);
        }
    }
    None
}

fn check(cw: u8, cn: u8, tw: u8, tn: u8, dict: u8, corpus: usize, solver: usize) -> Option<String> {
    let arg = format!("{}:{}:{}:{}:{}:{}:{}", cw, cn, tw, tn, dict, corpus, solver);
    crate::mark(&arg);
    let r = match std::panic::catch_unwind(move || check_inner(cw, cn, tw, tn, dict, corpus, solver)) {
        Ok(r) => r,
        Err(_) => Some("panic in Trainer::train or while using the trained model".to_string()),
    };
    r.map(|d| format!("{{\"replay_arg\":{},\"what\":\"char window {} n-gram {}, type window {} n-gram {}, dictionary bucket {}, corpus #{}\",\"actual\":{}}}", crate::js(&arg), cw, cn, tw, tn, dict, corpus, crate::js(&d)))
}

pub fn search() -> Option<String> {
    for corpus in 0..CORPORA.len() {
        let hi: u8 = if crate::thorough() { 5 } else { 3 };
        for cw in 1..=hi {
            for tw in 1..=hi {
                for cn in 1..=hi {
                    for tn in 1..=hi {
                        for dict in [0u8, 1, 3] {
                            let solver = (cw as usize + tn as usize) % SOLVERS.len();
                            if let Some(d) = check(cw, cn, tw, tn, dict, corpus, solver) {
                                return Some(d);
                            }
                        }
                    }
                }
            }
        }
    }
    // sizes of zero: a window of 0 rules out the n-grams of its kind only (the dictionary and the other kind still count)
    for corpus in 0..CORPORA.len() {
        for (cw, cn, tw, tn) in [(0u8, 0u8, 1u8, 1u8), (0, 1, 1, 1), (0, 2, 2, 1), (1, 1, 0, 0), (1, 1, 0, 1), (2, 0, 1, 0), (0, 0, 0, 0), (0, 2, 0, 2)] {
            for dict in [0u8, 1, 3] {
                let solver = (cw as usize + tn as usize + dict as usize) % SOLVERS.len();
                if let Some(d) = check(cw, cn, tw, tn, dict, corpus, solver) {
                    return Some(d);
                }
            }
        }
    }
    // n-gram sizes well beyond the window and beyond the length of the short sentences ("including 0 and n > window"):
    // the clipped window then ends before the n-gram does
    for corpus in 0..CORPORA.len() {
        for (cw, cn, tw, tn) in [(0u8, 3u8, 0u8, 3u8), (1, 4, 1, 4), (1, 5, 2, 4), (2, 6, 1, 3), (0, 4, 1, 1), (1, 1, 0, 5)] {
            for dict in [0u8, 3] {
                if let Some(d) = check(cw, cn, tw, tn, dict, corpus, (corpus + dict as usize) % 2) {
                    return Some(d);
                }
            }
        }
    }
    // window sizes at the far end of their type (u8): "any window and n-gram sizes"
    for corpus in [0usize, 1, 5, 8] {
        for (cw, cn, tw, tn) in [(127u8, 2u8, 1u8, 1u8), (128, 2, 1, 1), (1, 1, 200, 2), (255, 3, 255, 3), (200, 1, 128, 1)] {
            for dict in [0u8, 3] {
                if let Some(d) = check(cw, cn, tw, tn, dict, corpus, (corpus + dict as usize) % 2) {
                    return Some(d);
                }
            }
        }
    }
    for corpus in 0..CORPORA.len() {
        for (cw, cn, tw, tn) in [(1u8, 1u8, 1u8, 1u8), (2, 2, 2, 2)] {
            if let Some(d) = check(cw, cn, tw, tn, 2, corpus, 0) {
                return Some(d);
            }
        }
    }
    println!("STATS {{\"nontrivial\":{},\"rule\":\"every (char window, char n-gram, type window, type n-gram, dictionary bucket, corpus) combination is one case; non-trivial = training returned a model, which was then serialised, decoded, re-read and used by both predictor flavours\"}}", TRAINED.with(|c| c.get()));
    None
}

pub fn replay(input: &str) -> Option<String> {
    let p: Vec<usize> = input.split(':').map(|x| x.parse().unwrap()).collect();
    check(p[0] as u8, p[1] as u8, p[2] as u8, p[3] as u8, p[4] as u8, p[5], p[6])
}
