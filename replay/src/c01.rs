//! C01 / C06 / C13 / C14 / C18: prediction on seeded random models against the brute-force linear model.
use crate::gen::{gen_model, gen_text, gen_text_from_model, reference_scores, reference_tag_scores, reference_tags, ModelData, Rng};
use std::panic::{catch_unwind, AssertUnwindSafe};
use vaporetto::{CharacterBoundary as B, Model, Predictor, Sentence};

fn desc(arg: &str, what: &str) -> String {
    format!("{{\"replay_arg\":{},\"what\":{}}}", crate::js(arg), crate::js(what))
}

pub struct Outcome { pub scores: Vec<i32>, pub labels: Vec<u8>, pub wb_for_tags: Vec<bool>, pub n_tags: usize, pub tags: Vec<Option<String>>, pub cands: Vec<(usize, Vec<Vec<(String, i64)>>)> }

pub fn run_real(md: &ModelData, text: &str, predict_tags: bool, roundtrip: bool) -> Result<Outcome, String> {
    // (without vaporetto's tag-prediction feature, asking for tags is a documented panic of Predictor::new)
    let predict_tags = predict_tags && cfg!(feature = "tagpred");
    let bytes = md.to_bytes();
    let (model, rest) = Model::read_slice(&bytes).map_err(|e| format!("model rejected: {e}"))?;
    if !rest.is_empty() { return Err("read_slice left bytes".into()); }
    let mut predictor = Predictor::new(model, predict_tags).map_err(|e| format!("predictor rejected: {e}"))?;
    let ser;
    if roundtrip {
        ser = predictor.serialize_to_vec().map_err(|e| format!("serialize failed: {e}"))?;
        let mut buf = ser.clone();
        let trail: Vec<u8> = (0..(bytes.len() % 7) * 13).map(|i| (i * 31 + 5) as u8).collect();
        buf.extend_from_slice(&trail);
        // leak: the deserialised predictor borrows from the buffer
        let buf: &'static [u8] = Box::leak(buf.into_boxed_slice());
        let (p2, rest) = unsafe { Predictor::deserialize_from_slice_unchecked(buf) }.map_err(|e| format!("deserialize failed: {e}"))?;
        if rest != &trail[..] { return Err("deserialize remainder is not the trailing bytes".into()); }
        predictor = p2;
    }
    let mut s = Sentence::from_raw(text.to_string()).map_err(|e| format!("text rejected: {e}"))?;
    #[cfg(feature = "tagpred")]
    if predict_tags { predictor.store_tag_scores(true); }
    // texts of even length are predicted twice in a row on the same sentence object: the second prediction must
    // overwrite the first ("overwriting any earlier annotation"), not add to it
    // the sentence arrives with an annotation of its own (as from a tokenized corpus line, a filter or an earlier predictor):
    // prediction overwrites every label
    for (i, b) in s.boundaries_mut().iter_mut().enumerate() {
        *b = [B::WordBoundary, B::NotWordBoundary, B::Unknown][(i + text.len()) % 3];
    }
    if text.chars().count() % 2 == 0 { predictor.predict(&mut s); }
    predictor.predict(&mut s);
    let labels: Vec<u8> = s.boundaries().iter().map(|b| *b as u8).collect();
    // texts whose length is a multiple of 3: some boundaries are flipped by hand between predict and fill_tags (as a
    // filter would): tags must follow the boundaries the sentence has when fill_tags runs
    #[cfg(feature = "tagpred")]
    if predict_tags && text.chars().count() % 3 == 0 {
        // (tags are filled once BEFORE the edit as well: the second fill must start from a clean table)
        s.fill_tags();
        let bs = s.boundaries_mut();
        for (i, b) in bs.iter_mut().enumerate() {
            if (i * 7 + text.len()) % 3 == 0 {
                *b = if *b == B::WordBoundary { B::NotWordBoundary } else { B::WordBoundary };
            }
        }
    }
    // every seventh text length: the first occurrence of each tag-model token is MADE a token by hand (as a filter would),
    // so that long tokens, which the random models hardly ever cut out, are tagged too
    #[cfg(feature = "tagpred")]
    if predict_tags && (text.chars().count() % 7 == 0 || md.tag_models.iter().any(|t| t.token.chars().count() >= 20)) {
        let chars: Vec<char> = text.chars().collect();
        for tm in &md.tag_models {
            let tok: Vec<char> = tm.token.chars().collect();
            if tok.is_empty() || tok.len() > chars.len() { continue; }
            if let Some(p) = (0..=chars.len() - tok.len()).find(|&p| chars[p..p + tok.len()] == tok[..]) {
                let bs = s.boundaries_mut();
                if p > 0 { bs[p - 1] = B::WordBoundary; }
                for k in p..p + tok.len() - 1 { bs[k] = B::NotWordBoundary; }
                if p + tok.len() - 1 < bs.len() { bs[p + tok.len() - 1] = B::WordBoundary; }
            }
        }
    }
    let wb_for_tags: Vec<bool> = s.boundaries().iter().map(|b| *b == B::WordBoundary).collect();
    #[cfg(feature = "tagpred")]
    if predict_tags { s.fill_tags(); }
    // candidate scores as reported (score storing on): per token end, per category
    #[cfg(not(feature = "tagpred"))]
    let cands = vec![];
    #[cfg(feature = "tagpred")]
    let cands = if predict_tags {
        s.iter_tokens().map(|t| (t.end(), t.tag_candidates().into_iter().map(|c| c.into_iter().map(|(a, b)| (a.to_string(), b as i64)).collect()).collect())).collect()
    } else { vec![] };
    Ok(Outcome {
        cands,
        wb_for_tags,
        scores: s.boundary_scores().to_vec(),
        labels,
        n_tags: s.n_tags(),
        tags: s.tags().iter().map(|t| t.as_ref().map(|x| x.to_string())).collect(),
    })
}

/// degenerate shapes, magnitudes and sparsity, keyed by the seed (shared by the sweep and the C13 dump)
pub fn shape(md: &mut ModelData, seed: u64) {
    // degenerate shapes (every 5th seed): a model without character n-grams (dictionary only), without type n-grams,
    // without dictionary, or with neither kind of n-gram -- each list may be empty on its own
    match seed % 20 {
        3 => md.char_ngram_model.0.clear(),
        8 => md.type_ngram_model.0.clear(),
        13 => md.dict_model.0.clear(),
        18 => { md.char_ngram_model.0.clear(); md.type_ngram_model.0.clear(); }
        _ => {}
    }
    // magnitudes and sparsity (every 6th seed each): weights near the limits of the signed 16-bit range (sums over one
    // window leave that range), and weight vectors of more than 8 entries that are zero except for their last / first
    // few entries (long dictionary words, large windows)
    let each_vec = |md: &mut ModelData, f: &dyn Fn(&mut Vec<i32>)| {
        for d in md.char_ngram_model.0.iter_mut() { f(&mut d.weights); }
        for d in md.type_ngram_model.0.iter_mut() { f(&mut d.weights); }
        for d in md.dict_model.0.iter_mut() { f(&mut d.weights); }
    };
    match seed % 6 {
        4 => { each_vec(md, &|w| for x in w.iter_mut() { *x *= 327; }); md.bias *= 327; }
        1 => { let keep = 1 + (seed / 6 % 3) as usize; each_vec(md, &|w| if w.len() > 8 { let n = w.len(); for x in w[..n - keep].iter_mut() { *x = 0; } }); }
        5 => { let keep = 1 + (seed / 6 % 3) as usize; each_vec(md, &|w| if w.len() > 8 { for x in w[keep..].iter_mut() { *x = 0; } }); }
        _ => {}
    }
}

/// one case = (seed, with_tags, roundtrip); returns a description of the first disagreement
pub fn case(seed: u64, with_tags: bool, roundtrip: bool, check_tags: bool) -> Option<String> {
    let mut r = Rng(seed);
    let mut md = gen_model(&mut r, with_tags);
    shape(&mut md, seed);
    // every 7th seed the predictor is built with the OTHER tag-prediction flag: tag models present but tagging off
    // (boundaries as usual, no tags at all), or tagging on without any tag model (likewise no tags)
    let predict_tags = if seed % 7 == 3 { !with_tags } else { with_tags };
    for t in 0..8 {
        // six random texts, then two assembled from the model's own strings
        let text = if t < 6 { gen_text(&mut r, 12) } else { gen_text_from_model(&mut r, &md, 14) };
        let got = catch_unwind(AssertUnwindSafe(|| run_real(&md, &text, predict_tags, roundtrip)));
        let got = match got {
            Err(_) => return Some(format!("panic on text #{t} {:?}", text)),
            Ok(Err(e)) => return Some(format!("{e} (text #{t} {:?})", text)),
            Ok(Ok(o)) => o,
        };
        let want = reference_scores(&md, &text);
        let got64: Vec<i64> = got.scores.iter().map(|&x| x as i64).collect();
        if got64 != want {
            return Some(format!("scores differ on text #{t} {:?}: expected {:?} actual {:?} (char window {}, type window {})", text, want, got64, md.char_window_size, md.type_window_size));
        }
        let wb: Vec<bool> = want.iter().map(|&s| s > 0).collect();
        for (i, &l) in got.labels.iter().enumerate() {
            let w = if wb[i] { B::WordBoundary as u8 } else { B::NotWordBoundary as u8 };
            if l != w {
                return Some(format!("boundary {i} of text #{t} {:?}: score {} but label {}", text, want[i], l));
            }
        }
        // (a build without vaporetto's tag-prediction feature never reports tags)
        if !(cfg!(feature = "tagpred") && predict_tags && with_tags) {
            if got.n_tags != 0 || !got.tags.is_empty() {
                return Some(format!("tags on text #{t} {:?} although {}: n_tags {} {:?}", text, if predict_tags { "the model has no tag model" } else { "tag prediction is off" }, got.n_tags, got.tags));
            }
        } else if check_tags {
            let (n_tags, tags) = reference_tags(&md, &text, &got.wb_for_tags);
            if n_tags != 0 && (got.n_tags != n_tags || got.tags != tags) {
                return Some(format!("tags differ on text #{t} {:?}: expected n_tags {} {:?} actual n_tags {} {:?}", text, n_tags, tags, got.n_tags, got.tags));
            }
            // when score storing is enabled, the candidate scores reported for each token equal those sums
            for (end, want_c) in reference_tag_scores(&md, &text, &got.wb_for_tags) {
                let got_c = got.cands.iter().find(|(e, _)| *e == end).map(|(_, c)| c.clone()).unwrap_or_default();
                if got_c != want_c {
                    return Some(format!("candidate scores of the token ending at {end} on text #{t} {:?}: expected {:?} actual {:?}", text, want_c, got_c));
                }
            }
        }
    }
    None
}

fn base_seed() -> u64 {
    std::env::var("VERIF_SEED").ok().and_then(|s| s.parse().ok()).unwrap_or(0)
}

pub fn search(which: &str) -> Option<String> {
    let n = if crate::thorough() { 4000u64 } else { 400u64 };
    for i in 0..n {
        let seed = base_seed().wrapping_mul(1_000_003).wrapping_add(i);
        let (tags, rt, chk) = match which {
            "c01" => (i % 2 == 1, false, false),
            "c06" => (true, false, true),
            "c14" => (i % 2 == 0, true, true),
            _ => (i % 2 == 1, false, true),
        };
        crate::mark(&format!("{which}:{seed}:{}:{}:{}", tags as u8, rt as u8, chk as u8));
        if let Some(w) = case(seed, tags, rt, chk) {
            return Some(desc(&format!("{which}:{seed}:{}:{}:{}", tags as u8, rt as u8, chk as u8), &w));
        }
    }
    None
}

pub fn replay(arg: &str) -> Option<String> {
    let p: Vec<&str> = arg.split(':').collect();
    let seed: u64 = p[1].parse().ok()?;
    case(seed, p[2] == "1", p[3] == "1", p[4] == "1").map(|w| desc(arg, &w))
}

/// C13: print every observable of the sweep so that two builds can be compared
pub fn dump() {
    for i in 0..200u64 {
        let seed = base_seed().wrapping_mul(1_000_003).wrapping_add(i);
        let mut r = Rng(seed);
        let with_tags = i % 2 == 1;
        let mut md = gen_model(&mut r, with_tags);
        shape(&mut md, seed);
        for t in 0..7 {
            let text = if t < 6 { gen_text(&mut r, 12) } else { gen_text_from_model(&mut r, &md, 14) };
            match catch_unwind(AssertUnwindSafe(|| run_real(&md, &text, with_tags, false))) {
                Ok(Ok(o)) => println!("{seed}\t{:?}\t{:?}\t{:?}\t{}\t{:?}", text, o.scores, o.labels, o.n_tags, o.tags),
                Ok(Err(e)) => println!("{seed}\t{:?}\tERR {e}", text),
                Err(_) => println!("{seed}\t{:?}\tPANIC", text),
            }
        }
    }
}
