//! C04: write_partial_annotation_text followed by from_partial_annotation on the real crate (counterexample search / replay only).
use crate::{labels_from_str, sentence_with};
use std::borrow::Cow;
use vaporetto::{CharacterBoundary as B, Sentence};

const TEXT_ALPHA: [char; 13] = ['a', ' ', '/', '\\', 'あ', '-', '|', 'b', 'é', '𠀋', '\u{3000}', '\r', '\n'];
const TAGS: [Option<&str>; 9] = [None, Some("x"), Some("/"), Some("a b"), Some("\\"), Some("名詞-普通"), Some("|"), Some("-"), Some("x\r")];

/// per-character tag rows with trailing None removed
fn char_tags(s: &Sentence) -> Vec<Vec<Option<String>>> {
    let k = s.n_tags();
    (0..s.char_types().len())
        .map(|i| {
            let mut v: Vec<Option<String>> = s.tags()[i * k..(i + 1) * k].iter().map(|o| o.as_ref().map(|c| c.to_string())).collect();
            while matches!(v.last(), Some(None)) {
                v.pop();
            }
            v
        })
        .collect()
}

fn build(text: &str, labels: &[B], k: usize, tag_idx: &[usize]) -> Sentence<'static, 'static> {
    let mut s = sentence_with(text, labels);
    s.reset_tags(k);
    // tags are stored borrowed and owned in turn (a model's tags are borrowed, parsed ones owned: the writers must not care)
    for (k, (slot, &ti)) in s.tags_mut().iter_mut().zip(tag_idx).enumerate() {
        *slot = TAGS[ti].map(|t| if k % 2 == 0 { Cow::Borrowed(t) } else { Cow::Owned(t.to_string()) });
    }
    s
}

fn check_inner(text: &str, labels: &[B], k: usize, tag_idx: &[usize]) -> Option<String> {
    let s = build(text, labels, k, tag_idx);
    let mut buf = String::new();
    s.write_partial_annotation_text(&mut buf);
    let p = match Sentence::from_partial_annotation(&buf) {
        Ok(p) => p,
        Err(e) => return Some(format!("written text {:?} rejected: {}", buf, e)),
    };
    // the in-place parser on a reused object must agree with the constructor
    // (a fresh copy of a fully tagged, longer sentence per case, so every case is self-contained and replayable)
    let stale = {
        let mut r = Sentence::from_tokenized("a/A1/A2/A3 b/B1/B2/B3 c/C1/C2/C3 d/D1/D2/D3 e/E1/E2/E3 f/F1/F2/F3").unwrap();
        let before = format!("{:?} n_tags={}", r.as_raw_text(), r.n_tags());
        match r.update_partial_annotation(&buf) {
            Err(e) => Some(format!("update_partial_annotation rejects the written text {:?} (object held %s): {}", buf, e).replace("%s", &before)),
            Ok(()) => {
                if r.as_raw_text() != p.as_raw_text() || r.boundaries() != p.boundaries() || r.tags() != p.tags() || r.n_tags() != p.n_tags() {
                    Some(format!("update_partial_annotation into a reused object (held {}) differs from from_partial_annotation on {:?}: tags {:?} vs {:?}", before, buf, r.tags(), p.tags()))
                } else {
                    None
                }
            }
        }
    };
    if stale.is_some() {
        return stale;
    }
    if p.as_raw_text() != s.as_raw_text() {
        return Some(format!("raw text differs: written {:?} parsed {:?}", buf, p.as_raw_text()));
    }
    if p.boundaries() != s.boundaries() {
        return Some(format!("labels differ: written {:?} parsed {:?}", buf, p.boundaries()));
    }
    let (a, b) = (char_tags(&s), char_tags(&p));
    if a != b {
        return Some(format!("tags differ: written {:?} original {:?} parsed {:?}", buf, a, b));
    }
    None
}

fn arg(text: &str, labels: &[B], k: usize, tag_idx: &[usize]) -> String {
    let l: String = labels.iter().map(|b| match b { B::WordBoundary => 'W', B::NotWordBoundary => 'N', B::Unknown => 'U' }).collect();
    let t: String = tag_idx.iter().map(|i| char::from(b'0' + *i as u8)).collect();
    format!("{}#{}#{}#{}", text, l, k, t)
}

fn check(text: &str, labels: &[B], k: usize, tag_idx: &[usize]) -> Option<String> {
    let a = arg(text, labels, k, tag_idx);
    crate::mark(&a);
    let (t2, l2, i2) = (text.to_string(), labels.to_vec(), tag_idx.to_vec());
    let r = match std::panic::catch_unwind(move || check_inner(&t2, &l2, k, &i2)) {
        Ok(r) => r,
        Err(_) => Some("panic in write_partial_annotation_text / from_partial_annotation".to_string()),
    };
    r.map(|d| format!("{{\"replay_arg\":{},\"actual\":{}}}", crate::js(&a), crate::js(&d)))
}

pub fn search() -> Option<String> {
    let mut rng: u64 = 0x2545f4914f6cdd1d;
    let mut next = |m: usize| -> usize {
        rng ^= rng << 13;
        rng ^= rng >> 7;
        rng ^= rng << 17;
        (rng % m as u64) as usize
    };
    for _ in 0..(if crate::thorough() { 400000 } else { 30000 }) {
        let n = 1 + next(5);
        let text: String = (0..n).map(|_| TEXT_ALPHA[next(TEXT_ALPHA.len())]).collect();
        let labels: Vec<B> = (0..n - 1).map(|_| match next(3) { 0 => B::WordBoundary, 1 => B::NotWordBoundary, _ => B::Unknown }).collect();
        let k = next(4);
        let tag_idx: Vec<usize> = (0..k * n).map(|_| next(TAGS.len())).collect();
        if let Some(d) = check(&text, &labels, k, &tag_idx) {
            return Some(d);
        }
    }
    None
}

pub fn replay(input: &str) -> Option<String> {
    let parts: Vec<&str> = input.rsplitn(4, '#').collect();
    let (tags, k, labels, text) = (parts[0], parts[1], parts[2], parts[3]);
    let tag_idx: Vec<usize> = tags.bytes().map(|b| (b - b'0') as usize).collect();
    check(text, &labels_from_str(labels), k.parse().unwrap(), &tag_idx)
}
