//! Executable versions of the two format specifications (the transition functions of the contracts).
#[derive(Clone, Debug, PartialEq)]
pub struct Parsed { pub text: String, pub bounds: Vec<u8>, pub n_tags: usize, pub tags: Vec<Option<String>> }

fn layout(text: String, bounds: Vec<u8>, mut tags: Vec<Vec<String>>, cur: Option<String>) -> Parsed {
    if let Some(t) = cur { tags.last_mut().unwrap().push(t); }
    let k = tags.iter().map(|t| t.len()).max().unwrap_or(0);
    let mut flat = vec![];
    for row in &tags {
        for j in 0..k {
            flat.push(match row.get(j) { Some(t) if !t.is_empty() => Some(t.clone()), _ => None });
        }
    }
    Parsed { text, bounds, n_tags: k, tags: flat }
}

pub fn ref_tokenized(input: &str) -> Option<Parsed> {
    if input.is_empty() { return None; }
    let (mut text, mut bounds, mut tags): (String, Vec<u8>, Vec<Vec<String>>) = (String::new(), vec![], vec![]);
    let (mut cur, mut prev_b, mut esc): (Option<String>, bool, bool) = (None, false, false);
    for c in input.chars() {
        if !esc && c == '\\' { esc = true; }
        else if !esc && c == ' ' {
            if text.is_empty() || prev_b { return None; }
            if let Some(t) = cur.take() { tags.last_mut().unwrap().push(t); }
            prev_b = true;
        } else if !esc && c == '/' {
            if text.is_empty() || prev_b { return None; }
            if let Some(t) = cur.take() { tags.last_mut().unwrap().push(t); }
            cur = Some(String::new());
        } else if c == '\0' { return None; }
        else {
            esc = false;
            match cur.as_mut() {
                Some(t) => t.push(c),
                None => {
                    if !text.is_empty() { bounds.push(if prev_b { 1 } else { 0 }); }
                    prev_b = false;
                    text.push(c);
                    tags.push(vec![]);
                }
            }
        }
    }
    if prev_b || text.is_empty() { return None; }
    Some(layout(text, bounds, tags, cur))
}

pub fn ref_partial(input: &str) -> Option<Parsed> {
    if input.is_empty() { return None; }
    let (mut text, mut bounds, mut tags): (String, Vec<u8>, Vec<Vec<String>>) = (String::new(), vec![], vec![]);
    let (mut cur, mut is_char, mut esc): (Option<String>, bool, bool) = (None, true, false);
    for c in input.chars() {
        if is_char {
            if c == '\0' { return None; }
            text.push(c); tags.push(vec![]); is_char = false;
        } else if !esc && c == '\\' { esc = true; }
        else if !esc && (c == ' ' || c == '-' || c == '|') {
            if let Some(t) = cur.take() { tags.last_mut().unwrap().push(t); }
            bounds.push(match c { '|' => 1, '-' => 0, _ => 2 });
            is_char = true;
        } else if !esc && c == '/' {
            if let Some(t) = cur.take() { tags.last_mut().unwrap().push(t); }
            cur = Some(String::new());
        } else {
            esc = false;
            match cur.as_mut() { Some(t) => t.push(c), None => return None }
        }
    }
    if is_char { return None; }
    Some(layout(text, bounds, tags, cur))
}
