//! Replay / small-scope search against the REAL crate. Never decides a property: it only turns a
//! failed proof obligation into a concrete failing input (or re-executes a recorded one).
use std::env;
use vaporetto::{CharacterBoundary, Sentence};

mod c01;
#[cfg(feature = "tagpred")]
mod c02;
mod c03;
mod c04;
mod gen;
mod fmt;
mod c05;
mod c07;
#[cfg(feature = "tagpred")]
mod c08;
#[cfg(feature = "tagpred")]
mod c20;
#[cfg(feature = "kytea")]
mod c17;
#[cfg(feature = "train")]
mod c10;
#[cfg(feature = "train")]
mod trainref;
#[cfg(feature = "train")]
mod c09;
#[cfg(feature = "train")]
mod c12;
mod c15;
mod c19;
mod c16;

fn main() {
    if std::env::var("VP_SHOW_PANIC").is_err() { std::panic::set_hook(Box::new(|_| {})); }
    let args: Vec<String> = env::args().collect();
    if args.len() < 3 {
        eprintln!("usage: vp-replay <unit> search|replay [json-input]");
        std::process::exit(2);
    }
    let found = match (args[1].as_str(), args[2].as_str()) {
        ("c01", "search") => c01::search("c01"),
        ("c06", "search") => c01::search("c06"),
        ("c14", "search") => c01::search("c14"),
        ("c01", "replay") | ("c06", "replay") | ("c14", "replay") | ("c13", "replay") => c01::replay(&args[3]),
        ("c13", "dump") => { c01::dump(); None }
        #[cfg(feature = "tagpred")]
        ("c02", "search") => c02::search(),
        #[cfg(feature = "tagpred")]
        ("c02", "replay") => c02::replay(&args[3]),
        ("c03", "search") => c03::search(),
        ("c03", "replay") => c03::replay(&args[3]),
        ("c04", "search") => c04::search(),
        ("c04", "replay") => c04::replay(&args[3]),
        #[cfg(feature = "train")]
        ("c09", "search") | ("c11", "search") => c09::search(),
        #[cfg(feature = "train")]
        ("c09", "replay") | ("c11", "replay") => c09::replay(&args[3]),
        #[cfg(feature = "train")]
        ("c12", "search") => c12::search(),
        #[cfg(feature = "train")]
        ("c12", "replay") => c12::replay(&args[3]),
        #[cfg(feature = "train")]
        ("c10", "search") => c10::search(),
        #[cfg(feature = "train")]
        ("c10", "replay") => c10::replay(&args[3]),
        #[cfg(feature = "kytea")]
        ("c17", "search") => c17::search(),
        #[cfg(feature = "kytea")]
        ("c17", "replay") => c17::replay(&args[3]),
        #[cfg(feature = "tagpred")]
        ("c20", "search") => c20::search(),
        #[cfg(feature = "tagpred")]
        ("c20", "replay") => c20::replay(&args[3]),
        ("c16", "search") => c16::search(),
        ("c16", "replay") => c16::replay(&args[3]),
        ("c19", "search") => c19::search(),
        ("c19", "replay") => c19::replay(&args[3]),
        ("c15", "search") => c15::search(),
        ("c15", "replay") => c15::replay(&args[3]),
        #[cfg(feature = "tagpred")]
        ("c08", "search") => c08::search(),
        #[cfg(feature = "tagpred")]
        ("c08", "replay") => c08::replay(&args[3]),
        ("c07", "search") => c07::search(),
        ("c07", "replay") => c07::replay(&args[3]),
        ("c05", "search") => c05::search(),
        ("c05", "replay") => c05::replay(&args[3]),
        _ => {
            eprintln!("unknown unit/mode");
            std::process::exit(2);
        }
    };
    match found {
        Some(desc) => {
            println!("COUNTEREXAMPLE {desc}");
            std::process::exit(1);
        }
        None => {
            println!("NO-COUNTEREXAMPLE");
        }
    }
}

/// progress marker: the driver reads the last CASE line when the process dies from an abort (SIGABRT from an
/// unsafe-precondition check cannot be caught by catch_unwind)
/// thorough tier: sweeps are scaled up (VERIF_TIER is exported by the driver)
pub fn thorough() -> bool {
    std::env::var("VERIF_TIER").map_or(false, |t| t == "thorough")
}

pub fn mark(arg: &str) {
    use std::io::Write;
    let mut o = std::io::stdout().lock();
    let _ = writeln!(o, "CASE {}", js(arg));
    let _ = o.flush();
}

pub fn labels_from_str(s: &str) -> Vec<CharacterBoundary> {
    s.chars()
        .map(|c| match c {
            'W' => CharacterBoundary::WordBoundary,
            'N' => CharacterBoundary::NotWordBoundary,
            _ => CharacterBoundary::Unknown,
        })
        .collect()
}

pub fn sentence_with(text: &str, labels: &[CharacterBoundary]) -> Sentence<'static, 'static> {
    let mut s = Sentence::from_raw(text.to_string()).unwrap();
    s.boundaries_mut().copy_from_slice(labels);
    s
}

/// JSON string literal (the Debug format of str is not JSON)
pub fn js(s: &str) -> String {
    let mut o = String::from("\"");
    for c in s.chars() {
        match c {
            '"' => o.push_str("\\\""),
            '\\' => o.push_str("\\\\"),
            '\n' => o.push_str("\\n"),
            '\r' => o.push_str("\\r"),
            '\t' => o.push_str("\\t"),
            c if (c as u32) < 0x20 => o.push_str(&format!("\\u{:04x}", c as u32)),
            c => o.push(c),
        }
    }
    o.push('"');
    o
}
