//! C03: write_tokenized_text followed by from_tokenized on the real crate (counterexample search / replay only).
use crate::{labels_from_str, sentence_with};
use std::borrow::Cow;
use vaporetto::{CharacterBoundary as B, Sentence};

const TEXT_ALPHA: [char; 12] = ['a', ' ', '/', '\\', 'あ', 'b', 'é', '𠀋', '\u{3000}', '\r', '\n', '\t'];
const TAGS: [Option<&str>; 9] = [None, Some("x"), Some("/"), Some("a b"), Some("\\"), Some("名詞-普通"), None, Some("x\r"), Some("\n")];

/// tags of every token of `s` with trailing None removed
fn token_tags(s: &Sentence) -> Vec<Vec<Option<String>>> {
    s.iter_tokens()
        .map(|t| {
            let mut v: Vec<Option<String>> = t.tags().iter().map(|o| o.as_ref().map(|c| c.to_string())).collect();
            while matches!(v.last(), Some(None)) {
                v.pop();
            }
            v
        })
        .collect()
}

/// case: text | labels (W/N) | k | tag indices (one digit per slot, row-major)
fn build(text: &str, labels: &[B], k: usize, tag_idx: &[usize]) -> Sentence<'static, 'static> {
    let mut s = sentence_with(text, labels);
    s.reset_tags(k);
    // tags are stored borrowed and owned in turn (a model's tags are borrowed, parsed ones owned: the writers must not care)
    for (k, (slot, &ti)) in s.tags_mut().iter_mut().zip(tag_idx).enumerate() {
        *slot = TAGS[ti].map(|t| if k % 2 == 0 { Cow::Borrowed(t) } else { Cow::Owned(t.to_string()) });
    }
    s
}

fn check_inner(text: &str, labels: &[B], k: usize, tag_idx: &[usize]) -> Option<String> {
    let s = build(text, labels, k, tag_idx);
    let mut buf = String::new();
    s.write_tokenized_text(&mut buf);
    if std::str::from_utf8(buf.as_bytes()).is_err() {
        return Some("written line is not valid UTF-8".to_string());
    }
    let p = match Sentence::from_tokenized(&buf) {
        Ok(p) => p,
        Err(e) => return Some(format!("written line {:?} rejected: {}", buf, e)),
    };
    // the in-place parser on a reused object must agree with the constructor
    // (a fresh copy of a fully tagged, longer sentence per case, so every case is self-contained and replayable)
    let stale = {
        let mut r = Sentence::from_tokenized("a/A1/A2/A3 b/B1/B2/B3 c/C1/C2/C3 d/D1/D2/D3 e/E1/E2/E3 f/F1/F2/F3").unwrap();
        let before = format!("{:?} n_tags={}", r.as_raw_text(), r.n_tags());
        match r.update_tokenized(&buf) {
            Err(e) => Some(format!("update_tokenized rejects the written text {:?} (object held %s): {}", buf, e).replace("%s", &before)),
            Ok(()) => {
                if r.as_raw_text() != p.as_raw_text() || r.boundaries() != p.boundaries() || r.tags() != p.tags() || r.n_tags() != p.n_tags() {
                    Some(format!("update_tokenized into a reused object (held {}) differs from from_tokenized on {:?}: tags {:?} vs {:?}", before, buf, r.tags(), p.tags()))
                } else {
                    None
                }
            }
        }
    };
    if stale.is_some() {
        return stale;
    }
    if p.as_raw_text() != s.as_raw_text() {
        return Some(format!("raw text differs: written {:?} parsed {:?}", buf, p.as_raw_text()));
    }
    if p.boundaries() != s.boundaries() {
        return Some(format!("boundaries differ: written {:?} parsed {:?}", buf, p.boundaries()));
    }
    let (a, b) = (token_tags(&s), token_tags(&p));
    if a != b {
        return Some(format!("token tags differ: written {:?} original {:?} parsed {:?}", buf, a, b));
    }
    // idempotence on the accepted string `buf`
    let mut buf2 = String::new();
    p.write_tokenized_text(&mut buf2);
    if buf2 != buf {
        return Some(format!("write-after-parse not idempotent: {:?} -> {:?}", buf, buf2));
    }
    None
}

fn arg(text: &str, labels: &[B], k: usize, tag_idx: &[usize]) -> String {
    let l: String = labels.iter().map(|b| if *b == B::WordBoundary { 'W' } else { 'N' }).collect();
    let t: String = tag_idx.iter().map(|i| char::from(b'0' + *i as u8)).collect();
    format!("{}|{}|{}|{}", text, l, k, t)
}

fn check(text: &str, labels: &[B], k: usize, tag_idx: &[usize]) -> Option<String> {
    let a = arg(text, labels, k, tag_idx);
    crate::mark(&a);
    let (t2, l2, i2) = (text.to_string(), labels.to_vec(), tag_idx.to_vec());
    let r = match std::panic::catch_unwind(move || check_inner(&t2, &l2, k, &i2)) {
        Ok(r) => r,
        Err(_) => Some("panic in write_tokenized_text / from_tokenized".to_string()),
    };
    r.map(|d| format!("{{\"replay_arg\":{},\"actual\":{}}}", crate::js(&a), crate::js(&d)))
}

/// idempotence on strings the parser accepts (not only on written ones)
fn check_idem(x: &str) -> Option<String> {
    crate::mark(&format!("idem|{}", x));
    let x2 = x.to_string();
    let r = std::panic::catch_unwind(move || {
        let s = match Sentence::from_tokenized(&x2) {
            Ok(s) => s,
            Err(_) => return None,
        };
        let mut y = String::new();
        s.write_tokenized_text(&mut y);
        let p = match Sentence::from_tokenized(&y) {
            Ok(p) => p,
            Err(e) => return Some(format!("line {:?} written for accepted input {:?} is rejected: {}", y, x2, e)),
        };
        let mut z = String::new();
        p.write_tokenized_text(&mut z);
        if z != y {
            return Some(format!("accepted input {:?}: first write {:?}, second write {:?}", x2, y, z));
        }
        None
    });
    let r = match r {
        Ok(r) => r,
        Err(_) => Some("panic".to_string()),
    };
    r.map(|d| format!("{{\"replay_arg\":{},\"actual\":{}}}", crate::js(&format!("idem|{}", x)), crate::js(&d)))
}

pub fn search() -> Option<String> {
    let mut rng: u64 = 0x9e3779b97f4a7c15;
    let mut next = |m: usize| -> usize {
        rng ^= rng << 13;
        rng ^= rng >> 7;
        rng ^= rng << 17;
        (rng % m as u64) as usize
    };
    for _ in 0..(if crate::thorough() { 400000 } else { 30000 }) {
        let n = 1 + next(5);
        let text: String = (0..n).map(|_| TEXT_ALPHA[next(TEXT_ALPHA.len())]).collect();
        let labels: Vec<B> = (0..n - 1).map(|_| if next(2) == 0 { B::WordBoundary } else { B::NotWordBoundary }).collect();
        let k = next(4);
        let tag_idx: Vec<usize> = (0..k * n).map(|_| next(TAGS.len())).collect();
        if let Some(d) = check(&text, &labels, k, &tag_idx) {
            return Some(d);
        }
    }
    // all strings of length <= 6 over the format's own alphabet, for idempotence on accepted inputs
    let alpha = ['a', ' ', '/', '\\', 'あ'];
    for len in 1..=6usize {
        let total = alpha.len().pow(len as u32);
        for code in 0..total {
            let mut c = code;
            let x: String = (0..len).map(|_| { let ch = alpha[c % alpha.len()]; c /= alpha.len(); ch }).collect();
            if let Some(d) = check_idem(&x) {
                return Some(d);
            }
        }
    }
    None
}

pub fn replay(input: &str) -> Option<String> {
    if let Some(x) = input.strip_prefix("idem|") {
        return check_idem(x);
    }
    // text may itself contain '|'-free characters only (alphabet above), so a plain split is enough
    let parts: Vec<&str> = input.rsplitn(4, '|').collect();
    let (tags, k, labels, text) = (parts[0], parts[1], parts[2], parts[3]);
    let tag_idx: Vec<usize> = tags.bytes().map(|b| (b - b'0') as usize).collect();
    check(text, &labels_from_str(labels), k.parse().unwrap(), &tag_idx)
}
