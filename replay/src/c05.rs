//! C05 / C08 (no predictor): every constructor / update on every small input, in every pair
//! order on one sentence object, compared with a fresh constructor.
use std::panic::{catch_unwind, AssertUnwindSafe};
use vaporetto::{CharacterBoundary, Sentence};

const INPUTS: &[&str] = &[
    "", "a", "ab", "a b", "a/x b/y", "a/x/y b", "\\", "a\\", "\\\\", "\\ ", " a", "a ", "a  b", "a\0", "\0",
    "a|b", "a-b", "a\tb", "a b c", "a/x|b/y", "a/x-b", "a/", "/", "a//", "a/ b", "あ/名 い", "a|b|", "a|", "ab|c", "a/x|b/y/z|c",
    "a\\/b", "a/x\\ y", "\\a", "a/\\", "a|b/x\\", "/|/", "a-b-c/t", "cd", "漢字かな", "a\\\0",
    "ab/x\\/y cd/z", "a/x\\ y b/z", "a/\\\\ b", "a/x\\", "a|b/x\\|y|c/z", "a/x\\-y-b", "a/\\/|b", "a/x/ b//y", "a//|b/ /", "a/x\0|b", "火/名詞\\/固有|星",
    // characters a "helpful" normalisation might treat specially: BOM, zero-width space, combining mark, 4-byte scalar, CR/LF
    "\u{feff}ab", "\u{feff}", "a\u{feff}", "\u{200b}a", "e\u{301}", "😀a", "a\r\nb",
    // ASCII between and around the letter ranges, characters at the edges of the character classes, line ends
    "a_b", "x[0]", "^`]_[", "@AZ[`az{", "/09:", "ア・ー", "ぁゖ\u{3097}", "０９：Ａｚ｛", "ｦﾟ\u{ff65}", "a\r", "a/x\r", "\r", "a b\r",
];

#[derive(Clone, Copy, Debug, PartialEq)]
enum Kind {
    Raw,
    Tok,
    Part,
}
const KINDS: [Kind; 3] = [Kind::Raw, Kind::Tok, Kind::Part];

type Obs = (String, Vec<u8>, Vec<u8>, Vec<Option<String>>, usize, usize, String, String, Vec<(usize, usize, String)>);

fn observe(s: &Sentence) -> Result<Obs, String> {
    let len = s.char_types().len();
    if len == 0 {
        return Err("no character".into());
    }
    if s.boundaries().len() + 1 != len {
        return Err(format!("boundaries.len()={} but len={}", s.boundaries().len(), len));
    }
    if s.tags().len() != s.n_tags() * len {
        return Err(format!("tags.len()={} but n_tags={} len={}", s.tags().len(), s.n_tags(), len));
    }
    if s.as_raw_text().chars().count() != len {
        return Err("text length differs from char_types length".into());
    }
    if !s.boundary_scores().is_empty() {
        return Err("scores present after update".into());
    }
    // "character types ... describe exactly the new input, one type per character": by the library's OWN classification
    // (CharacterType::get_type) -- the statement fixes no table, only that every constructor describes the input with it
    let want_types: Vec<u8> = s.as_raw_text().chars().map(|c| vaporetto::CharacterType::get_type(c) as u8).collect();
    if s.char_types() != &want_types[..] {
        return Err(format!("character types {:?} of {:?}, expected {:?}", s.char_types(), s.as_raw_text(), want_types));
    }
    let mut tok = String::new();
    s.write_tokenized_text(&mut tok);
    let mut part = String::new();
    s.write_partial_annotation_text(&mut part);
    let toks = s.iter_tokens().map(|t| { let _ = t.tags(); (t.start(), t.end(), t.surface().to_string()) }).collect();
    Ok((
        s.as_raw_text().to_string(),
        s.char_types().to_vec(),
        s.boundaries().iter().map(|b| *b as u8).collect(),
        s.tags().iter().map(|t| t.as_ref().map(|x| x.to_string())).collect(),
        s.n_tags(),
        len,
        tok,
        part,
        toks,
    ))
}

fn fresh(kind: Kind, input: &str) -> Option<Sentence<'static, 'static>> {
    match kind {
        Kind::Raw => Sentence::from_raw(input.to_string()).ok(),
        Kind::Tok => Sentence::from_tokenized(input).ok(),
        Kind::Part => Sentence::from_partial_annotation(input).ok(),
    }
}

fn update(s: &mut Sentence<'static, 'static>, kind: Kind, input: &str) -> bool {
    match kind {
        Kind::Raw => s.update_raw(input.to_string()).is_ok(),
        Kind::Tok => s.update_tokenized(input).is_ok(),
        Kind::Part => s.update_partial_annotation(input).is_ok(),
    }
}

/// run: [first update] [optional reset_tags(k)] second update; compare with the fresh constructor
fn case(k1: Kind, i1: &str, reset: Option<usize>, k2: Kind, i2: &str) -> Option<String> {
    let r = catch_unwind(AssertUnwindSafe(|| -> Option<String> {
        let mut s = Sentence::default();
        update(&mut s, k1, i1);
        if let Some(k) = reset {
            s.reset_tags(k);
        }
        if let Err(e) = observe(&s) {
            return Some(format!("after first op: {e}"));
        }
        let ok = update(&mut s, k2, i2);
        let got = match observe(&s) {
            Ok(o) => o,
            Err(e) => return Some(format!("inconsistent sentence: {e}")),
        };
        let want = if ok {
            match fresh(k2, i2) {
                Some(f) => observe(&f).map_err(|e| format!("fresh inconsistent: {e}")),
                None => return Some("update succeeded but constructor failed".into()),
            }
        } else {
            if fresh(k2, i2).is_some() {
                return Some("update failed but constructor succeeded".into());
            }
            observe(&Sentence::default())
        };
        match want {
            Ok(w) if w == got => None,
            Ok(w) => Some(format!("expected {:?} actual {:?}", w, got)),
            Err(e) => Some(e),
        }
    }));
    match r {
        Ok(x) => x,
        Err(_) => Some("panic".into()),
    }
}

fn describe(k1: Kind, i1: &str, reset: Option<usize>, k2: Kind, i2: &str, what: &str) -> String {
    let arg = format!("{:?}\t{}\t{}\t{:?}\t{}", k1, i1, reset.map(|x| x as i64).unwrap_or(-1), k2, i2);
    format!(
        "{{\"replay_arg\":{},\"first\":{},\"reset_tags\":{},\"second\":{},\"what\":{}}}",
        crate::js(&arg),
        crate::js(&format!("{:?}({:?})", k1, i1)),
        reset.map(|x| x as i64).unwrap_or(-1),
        crate::js(&format!("{:?}({:?})", k2, i2)),
        crate::js(what)
    )
}

pub fn search() -> Option<String> {
    for &k1 in &KINDS {
        for i1 in INPUTS {
            for reset in [None, Some(0usize), Some(2)] {
                for &k2 in &KINDS {
                    for i2 in INPUTS {
                        if let Some(w) = case(k1, i1, reset, k2, i2) {
                            return Some(describe(k1, i1, reset, k2, i2, &w));
                        }
                    }
                }
            }
        }
    }
    // content: each constructor against the executable format specification
    for &k in &KINDS {
        for i in INPUTS {
            if let Some(d) = content(k, i) { return Some(d); }
        }
    }
    // constructors alone must not panic either
    for &k in &KINDS {
        for i in INPUTS {
            let r = catch_unwind(|| fresh(k, i).map(|s| observe(&s)));
            match r {
                Err(_) => return Some(describe(k, i, None, k, i, "constructor panics")),
                Ok(Some(Err(e))) => return Some(describe(k, i, None, k, i, &e)),
                _ => {}
            }
        }
    }
    None
}

fn content(k: Kind, i: &str) -> Option<String> {
    let want = match k { Kind::Raw => return None, Kind::Tok => crate::fmt::ref_tokenized(i), Kind::Part => crate::fmt::ref_partial(i) };
    let i2 = i.to_string();
    let got = catch_unwind(move || fresh(k, &i2).map(|s| crate::fmt::Parsed {
        text: s.as_raw_text().to_string(),
        bounds: s.boundaries().iter().map(|b| *b as u8).collect(),
        n_tags: s.n_tags(),
        tags: s.tags().iter().map(|t| t.as_ref().map(|x| x.to_string())).collect(),
    }));
    match got {
        Err(_) => Some(describe(k, i, None, k, i, "constructor panics")),
        Ok(g) if g != want => Some(describe(k, i, None, k, i, &format!("parsed content differs from the format: expected {:?} actual {:?}", want, g))),
        _ => None,
    }
}

fn kind_of(s: &str) -> Kind {
    match s {
        "Raw" => Kind::Raw,
        "Tok" => Kind::Tok,
        _ => Kind::Part,
    }
}

pub fn replay(arg: &str) -> Option<String> {
    let p: Vec<&str> = arg.split('\t').collect();
    let reset = p[2].parse::<i64>().ok().and_then(|x| if x < 0 { None } else { Some(x as usize) });
    if let Some(d) = content(kind_of(p[3]), p[4]) { return Some(d); }
    case(kind_of(p[0]), p[1], reset, kind_of(p[3]), p[4]).map(|w| describe(kind_of(p[0]), p[1], reset, kind_of(p[3]), p[4], &w))
}

#[allow(dead_code)]
fn _unused(_: CharacterBoundary) {}
