//! C15: post-filters against references written from the statement, on all small boundary vectors.
use std::panic::{catch_unwind, AssertUnwindSafe};
use vaporetto::{CharacterBoundary as B, CharacterType};
use vaporetto_rules::{
    sentence_filters::{ConcatGraphemeClustersFilter, KyteaWsConstFilter, PatternMatchTagger, SplitLinebreaksFilter},
    SentenceFilter,
};

const TEXTS: &[&str] = &["12a34あ5", "ab12cd", "アイ1ウ漢字", "1\r\n2\n3\r4", "a\u{1f468}\u{200d}\u{1f469}b\u{1f44f}\u{1f3fd}", "\n", "x",
    "前の行\n", "a\r\n", "\ra", "行\nx", "Vaporetto", "2021", "a\u{915}\u{93e}", "\u{e01}\u{e33}だ", "\u{600}12", "e\u{301}x", "\u{1f1ef}\u{1f1f5}a",
    "\u{1f1ef}\u{1f1f5}\u{1f1fa}\u{1f1f8}\u{1f1eb}", "\u{1100}\u{1161}\u{11a8}a", "a\r\n\r\nb", "\r\n",
    // other characters that end a line in some conventions (VT, FF, NEL, LS, PS) and characters whose low byte is CR / LF:
    // the rule names CR and LF only
    "ab\u{2028}cd", "a\u{b}b\u{c}c", "x\u{85}y\u{2029}z", "上\u{300a}不\u{300d}", "\u{ff0d}a\u{10a}"];
// known answers for extended grapheme clusters (UAX #29): (text, boundary index that lies INSIDE a cluster)
const INSIDE_CLUSTER: &[(&str, usize)] = &[("a\u{915}\u{93e}", 1), ("\u{e01}\u{e33}だ", 0), ("\u{600}12", 0), ("e\u{301}x", 0), ("\u{1f1ef}\u{1f1f5}a", 0),
    ("a\u{1f468}\u{200d}\u{1f469}b\u{1f44f}\u{1f3fd}", 1), ("a\u{1f468}\u{200d}\u{1f469}b\u{1f44f}\u{1f3fd}", 2), ("a\u{1f468}\u{200d}\u{1f469}b\u{1f44f}\u{1f3fd}", 5),
    ("1\r\n2\n3\r4", 1), ("a\r\n", 1)];
const TYPES: [CharacterType; 6] = [
    CharacterType::Digit, CharacterType::Roman, CharacterType::Hiragana,
    CharacterType::Katakana, CharacterType::Kanji, CharacterType::Other,
];

// boundary i (between characters i and i+1) lies inside an extended grapheme cluster of `text` segmented as a whole
fn inside_cluster_whole_text(text: &str, i: usize) -> bool {
    use unicode_segmentation::UnicodeSegmentation;
    let mut start = 0;
    for g in text.graphemes(true) {
        let n = g.chars().count();
        if start <= i && i + 1 < start + n { return true; }
        start += n;
    }
    false
}
fn lab(code: usize, k: usize) -> Vec<B> {
    let mut c = code;
    (0..k).map(|_| { let b = match c % 3 { 0 => B::NotWordBoundary, 1 => B::WordBoundary, _ => B::Unknown }; c /= 3; b }).collect()
}
fn lstr(l: &[B]) -> String {
    l.iter().map(|b| match b { B::WordBoundary => 'W', B::NotWordBoundary => 'N', B::Unknown => 'U' }).collect()
}
fn desc(arg: &str, what: &str) -> String {
    format!("{{\"replay_arg\":{},\"what\":{}}}", crate::js(arg), crate::js(what))
}

fn check(filter_id: usize, text: &str, labels: &[B]) -> Option<String> {
    let arg = format!("{}\t{}\t{}", filter_id, text, lstr(labels));
    let r = catch_unwind(AssertUnwindSafe(|| -> Option<String> {
        let mut s = crate::sentence_with(text, labels);
        let types = s.char_types().to_vec();
        let chars: Vec<char> = text.chars().collect();
        let filter: Box<dyn SentenceFilter> = match filter_id {
            0..=5 => Box::new(KyteaWsConstFilter::new(TYPES[filter_id])),
            6 => Box::new(SplitLinebreaksFilter),
            _ => Box::new(ConcatGraphemeClustersFilter),
        };
        filter.filter(&mut s);
        let after = s.boundaries().to_vec();
        if s.as_raw_text() != text || s.char_types() != &types[..] || after.len() != labels.len() {
            return Some("text / character types / boundary count changed".into());
        }
        for i in 0..labels.len() {
            let want = match filter_id {
                0..=5 => {
                    let t = TYPES[filter_id] as u8;
                    if types[i] == t && types[i + 1] == t { B::NotWordBoundary } else { labels[i] }
                }
                6 => {
                    let nl = |c: char| c == '\r' || c == '\n';
                    if nl(chars[i]) || nl(chars[i + 1]) { B::WordBoundary } else { labels[i] }
                }
                _ => {
                    // grapheme filter: may only clear; boundaries known to lie inside an extended cluster must be cleared;
                    // boundaries between two ASCII letters/digits are never inside a cluster
                    if after[i] != labels[i] && after[i] != B::NotWordBoundary { return Some(format!("boundary {i} set to something other than NotWordBoundary")); }
                    if INSIDE_CLUSTER.iter().any(|(t, k)| *t == text && *k == i) && after[i] != B::NotWordBoundary {
                        return Some(format!("boundary {i} lies inside an extended grapheme cluster but was not cleared"));
                    }
                    if chars[i].is_ascii_alphanumeric() && chars[i + 1].is_ascii_alphanumeric() && after[i] != labels[i] {
                        return Some(format!("boundary {i} between two ASCII alphanumerics was changed"));
                    }
                    // exact rule against the segmentation of the WHOLE text by the same crate (the filter asks it cluster by cluster)
                    if inside_cluster_whole_text(text, i) { B::NotWordBoundary } else { labels[i] }
                }
            };
            if after[i] != want {
                return Some(format!("boundary {i}: expected {:?}, actual {:?}", want, after[i]));
            }
        }
        filter.filter(&mut s);
        if s.boundaries() != &after[..] {
            return Some("not idempotent".into());
        }
        None
    }));
    match r {
        Ok(None) => None,
        Ok(Some(w)) => Some(desc(&arg, &w)),
        Err(_) => Some(desc(&arg, "panic")),
    }
}

// ---- pattern tagger: reference written from the statement ("fills only absent tags of tokens whose surface has a rule")
// sentences: 't' = tokenized line, 'p' = partial-annotation line (gives unknown boundaries, i.e. stretches that are not tokens)
const TAG_LINES: &[(char, &str)] = &[
    ('t', "これ/名詞/ソレ は テスト/名詞 です//デス"), ('t', "これ は テスト です"), ('t', "これ/名詞 は/助詞 テスト/名詞 です/助動詞"),
    ('t', "a//x b/y c//z d"), ('t', "これ///コレ は"), ('t', "x"), ('t', "は は/助詞 は//ワ は/助詞/ワ"),
    ('p', "こ-れ/名詞|は|テ ス ト|で-す"), ('p', "こ-れ|は/助詞 テ-ス-ト|で-す//デス"), ('p', "a b-c/y|d"), ('p', "は|は/助詞|は"),
    ('p', "こ-れ は|は"),
];
fn rule_tables() -> Vec<Vec<(&'static str, Vec<Option<&'static str>>)>> {
    vec![
        vec![],
        vec![("これ", vec![Some("代名詞"), Some("コレ")]), ("は", vec![Some("助詞"), Some("ワ")]), ("テスト", vec![Some("名詞"), Some("テスト")]), ("です", vec![Some("助動詞"), Some("デス")])],
        vec![("は", vec![Some("助詞")]), ("これ", vec![None, Some("コレ")]), ("d", vec![]), ("a", vec![Some("A"), Some("B"), Some("C"), Some("D")])],
        vec![("は", vec![None, None, Some("三")]), ("bc", vec![Some("BC")]), ("x", vec![Some("X")]), ("これは", vec![Some("誤")]), ("テ", vec![Some("誤")])],
    ]
}
fn tagger_sentence(kind: char, line: &'static str) -> Option<vaporetto::Sentence<'static, 'static>> {
    if kind == 't' { vaporetto::Sentence::from_tokenized(line).ok() } else { vaporetto::Sentence::from_partial_annotation(line).ok() }
}
fn check_tagger(line_id: usize, table_id: usize) -> Option<String> {
    let arg = format!("8\t{}\t{}", line_id, table_id);
    let r = catch_unwind(AssertUnwindSafe(|| -> Option<String> {
        let (kind, line) = TAG_LINES[line_id];
        let table = &rule_tables()[table_id];
        let mut s = match tagger_sentence(kind, line) { Some(s) => s, None => return Some("test sentence rejected by the parser".into()) };
        let mut rules = hashbrown::HashMap::new();
        for (k, row) in table {
            rules.insert(k.to_string(), row.iter().map(|t| t.map(|t| t.to_string())).collect::<Vec<Option<String>>>());
        }
        let text = s.as_raw_text().to_string();
        let chars: Vec<char> = text.chars().collect();
        let types = s.char_types().to_vec();
        let bounds = s.boundaries().to_vec();
        let n = s.n_tags();
        let before: Vec<Option<String>> = s.tags().iter().map(|t| t.as_ref().map(|t| t.to_string())).collect();
        // expected: walk the maximal word-boundary-delimited segments; a segment without unknown boundary is a token
        let mut want = before.clone();
        let mut start = 0;
        for e in 1..=chars.len() {
            if e == chars.len() || bounds[e - 1] == B::WordBoundary {
                let is_token = (start..e - 1).all(|k| bounds[k] != B::Unknown);
                let surface: String = chars[start..e].iter().collect();
                if is_token {
                    if let Some(row) = table.iter().find(|(k, _)| *k == surface).map(|(_, r)| r) {
                        for j in 0..n {
                            if before[(e - 1) * n + j].is_none() {
                                want[(e - 1) * n + j] = row.get(j).and_then(|t| t.map(|t| t.to_string()));
                            }
                        }
                    }
                }
                start = e;
            }
        }
        let filter = PatternMatchTagger::new(rules);
        filter.filter(&mut s);
        if s.as_raw_text() != text || s.char_types() != &types[..] || s.boundaries() != &bounds[..] || s.n_tags() != n {
            return Some("text / character types / boundaries / tag width changed".into());
        }
        let after: Vec<Option<String>> = s.tags().iter().map(|t| t.as_ref().map(|t| t.to_string())).collect();
        if after.len() != want.len() { return Some("tag table length changed".into()); }
        for k in 0..want.len() {
            if after[k] != want[k] {
                return Some(format!("tag slot {} (character {}, slot {}): expected {:?}, actual {:?}", k, k / n, k % n, want[k], after[k]));
            }
        }
        filter.filter(&mut s);
        let again: Vec<Option<String>> = s.tags().iter().map(|t| t.as_ref().map(|t| t.to_string())).collect();
        if again != after { return Some("not idempotent".into()); }
        None
    }));
    match r {
        Ok(None) => None,
        Ok(Some(w)) => Some(desc(&arg, &w)),
        Err(_) => Some(desc(&arg, "panic")),
    }
}

pub fn search() -> Option<String> {
    for line_id in 0..TAG_LINES.len() {
        for table_id in 0..rule_tables().len() {
            crate::mark(&format!("8\t{}\t{}", line_id, table_id));
            if let Some(d) = check_tagger(line_id, table_id) {
                return Some(d);
            }
        }
    }
    for text in TEXTS {
        let n = text.chars().count();
        let k = n - 1;
        let total = 3usize.pow(k.min(7) as u32);
        for code in 0..total {
            let mut labels = lab(code, k.min(7));
            labels.resize(k, B::Unknown);
            for f in 0..8 {
                crate::mark(&format!("{}\t{}\t{}", f, text, lstr(&labels)));
                if let Some(d) = check(f, text, &labels) {
                    return Some(d);
                }
            }
        }
    }
    None
}

pub fn replay(arg: &str) -> Option<String> {
    let p: Vec<&str> = arg.split('\t').collect();
    if p[0] == "8" { return check_tagger(p[1].parse().ok()?, p[2].parse().ok()?); }
    check(p[0].parse().ok()?, p[1], &crate::labels_from_str(p[2]))
}
