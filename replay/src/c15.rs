//! C15: post-filters against references written from the statement, on all small boundary vectors.
use std::panic::{catch_unwind, AssertUnwindSafe};
use vaporetto::{CharacterBoundary as B, CharacterType};
use vaporetto_rules::{
    sentence_filters::{ConcatGraphemeClustersFilter, KyteaWsConstFilter, SplitLinebreaksFilter},
    SentenceFilter,
};

const TEXTS: &[&str] = &["12a34あ5", "ab12cd", "アイ1ウ漢字", "1\r\n2\n3\r4", "a\u{1f468}\u{200d}\u{1f469}b\u{1f44f}\u{1f3fd}", "\n", "x",
    "前の行\n", "a\r\n", "\ra", "行\nx", "Vaporetto", "2021", "a\u{915}\u{93e}", "\u{e01}\u{e33}だ", "\u{600}12", "e\u{301}x", "\u{1f1ef}\u{1f1f5}a"];
// known answers for extended grapheme clusters (UAX #29): (text, boundary index that lies INSIDE a cluster)
const INSIDE_CLUSTER: &[(&str, usize)] = &[("a\u{915}\u{93e}", 1), ("\u{e01}\u{e33}だ", 0), ("\u{600}12", 0), ("e\u{301}x", 0), ("\u{1f1ef}\u{1f1f5}a", 0),
    ("a\u{1f468}\u{200d}\u{1f469}b\u{1f44f}\u{1f3fd}", 1), ("a\u{1f468}\u{200d}\u{1f469}b\u{1f44f}\u{1f3fd}", 2), ("a\u{1f468}\u{200d}\u{1f469}b\u{1f44f}\u{1f3fd}", 5)];
const TYPES: [CharacterType; 6] = [
    CharacterType::Digit, CharacterType::Roman, CharacterType::Hiragana,
    CharacterType::Katakana, CharacterType::Kanji, CharacterType::Other,
];

fn lab(code: usize, k: usize) -> Vec<B> {
    let mut c = code;
    (0..k).map(|_| { let b = match c % 3 { 0 => B::NotWordBoundary, 1 => B::WordBoundary, _ => B::Unknown }; c /= 3; b }).collect()
}
fn lstr(l: &[B]) -> String {
    l.iter().map(|b| match b { B::WordBoundary => 'W', B::NotWordBoundary => 'N', B::Unknown => 'U' }).collect()
}
fn desc(arg: &str, what: &str) -> String {
    format!("{{\"replay_arg\":{},\"what\":{}}}", crate::js(arg), crate::js(what))
}

fn check(filter_id: usize, text: &str, labels: &[B]) -> Option<String> {
    let arg = format!("{}\t{}\t{}", filter_id, text, lstr(labels));
    let r = catch_unwind(AssertUnwindSafe(|| -> Option<String> {
        let mut s = crate::sentence_with(text, labels);
        let types = s.char_types().to_vec();
        let chars: Vec<char> = text.chars().collect();
        let filter: Box<dyn SentenceFilter> = match filter_id {
            0..=5 => Box::new(KyteaWsConstFilter::new(TYPES[filter_id])),
            6 => Box::new(SplitLinebreaksFilter),
            _ => Box::new(ConcatGraphemeClustersFilter),
        };
        filter.filter(&mut s);
        let after = s.boundaries().to_vec();
        if s.as_raw_text() != text || s.char_types() != &types[..] || after.len() != labels.len() {
            return Some("text / character types / boundary count changed".into());
        }
        for i in 0..labels.len() {
            let want = match filter_id {
                0..=5 => {
                    let t = TYPES[filter_id] as u8;
                    if types[i] == t && types[i + 1] == t { B::NotWordBoundary } else { labels[i] }
                }
                6 => {
                    let nl = |c: char| c == '\r' || c == '\n';
                    if nl(chars[i]) || nl(chars[i + 1]) { B::WordBoundary } else { labels[i] }
                }
                _ => {
                    // grapheme filter: may only clear; boundaries known to lie inside an extended cluster must be cleared;
                    // boundaries between two ASCII letters/digits are never inside a cluster
                    if after[i] != labels[i] && after[i] != B::NotWordBoundary { return Some(format!("boundary {i} set to something other than NotWordBoundary")); }
                    if INSIDE_CLUSTER.iter().any(|(t, k)| *t == text && *k == i) && after[i] != B::NotWordBoundary {
                        return Some(format!("boundary {i} lies inside an extended grapheme cluster but was not cleared"));
                    }
                    if chars[i].is_ascii_alphanumeric() && chars[i + 1].is_ascii_alphanumeric() && after[i] != labels[i] {
                        return Some(format!("boundary {i} between two ASCII alphanumerics was changed"));
                    }
                    after[i]
                }
            };
            if after[i] != want {
                return Some(format!("boundary {i}: expected {:?}, actual {:?}", want, after[i]));
            }
        }
        filter.filter(&mut s);
        if s.boundaries() != &after[..] {
            return Some("not idempotent".into());
        }
        None
    }));
    match r {
        Ok(None) => None,
        Ok(Some(w)) => Some(desc(&arg, &w)),
        Err(_) => Some(desc(&arg, "panic")),
    }
}

pub fn search() -> Option<String> {
    for text in TEXTS {
        let n = text.chars().count();
        let k = n - 1;
        let total = 3usize.pow(k.min(7) as u32);
        for code in 0..total {
            let mut labels = lab(code, k.min(7));
            labels.resize(k, B::Unknown);
            for f in 0..8 {
                crate::mark(&format!("{}\t{}\t{}", f, text, lstr(&labels)));
                if let Some(d) = check(f, text, &labels) {
                    return Some(d);
                }
            }
        }
    }
    None
}

pub fn replay(arg: &str) -> Option<String> {
    let p: Vec<&str> = arg.split('\t').collect();
    check(p[0].parse().ok()?, p[1], &crate::labels_from_str(p[2]))
}
