//! C19: replace_dictionary frame (through serialisation) and the record length check.
use vaporetto::{Model, WordWeightRecord};

fn desc(arg: &str, what: &str) -> String {
    format!("{{\"replay_arg\":{},\"what\":{}}}", crate::js(arg), crate::js(what))
}

const WORDS: &[&str] = &["", "a", "ab", "猫", "火星猫", "a,b", "\"q\"", "a b", "line\nbreak", "👨‍👩‍👧"];

fn weight_patterns(n: usize) -> Vec<Vec<i32>> {
    vec![
        vec![1; n],
        vec![0; n],                                                    // all zero
        (0..n).map(|k| k as i32 - 3).collect(),                        // negative, zero and positive entries
        (0..n).map(|k| if k + 2 >= n { 0 } else { 7 }).collect(),      // trailing zeros
        (0..n).map(|k| if k < 2 { 0 } else { -9 }).collect(),          // leading zeros
        (0..n).map(|k| if k % 2 == 0 { i32::MAX } else { i32::MIN }).collect(),
    ]
}
fn check_record(word: &str, n: usize) -> Option<String> {
    for (pi, weights) in weight_patterns(n).into_iter().enumerate() {
        let r = WordWeightRecord::new(word.to_string(), weights.clone(), "c, \"d\" ".to_string());
        let want = n == word.chars().count() + 1;
        if r.is_ok() != want {
            return Some(desc(&format!("rec:{}:{}", n, word), "record accepted/rejected against the length rule"));
        }
        if let Ok(rec) = r {
            if rec.get_word() != word || rec.get_weights() != &weights[..] || rec.get_comment() != "c, \"d\" " {
                return Some(desc(&format!("rec:{}:{}", n, word), &format!("record does not store its arguments unchanged (weight pattern {pi}: given {:?}, get_weights {:?})", weights, rec.get_weights())));
            }
        }
    }
    None
}

fn check_replace(variant: usize) -> Option<String> {
    let bytes = std::fs::read("/repo/resources/model.bin").ok()?;
    let (mut model, _) = Model::read_slice(&bytes).ok()?;
    let original = model.to_vec().ok()?;
    let dict: Vec<WordWeightRecord> = model.dictionary().to_vec();
    // 1. replacing with the unmodified dump reproduces the model byte for byte
    model.replace_dictionary(dict.clone());
    if model.to_vec().ok()? != original {
        return Some(desc(&format!("rep:{variant}"), "replace with the unmodified dictionary changes the serialised model"));
    }
    // 2. replacing with another dictionary changes only the dictionary: put the old one back and compare
    let mut other = dict.clone();
    match variant {
        0 => other.clear(),
        1 => other.push(WordWeightRecord::new("火星猫".into(), vec![1, -2, 3, -4], "x".into()).unwrap()),
        2 => { other.reverse(); }
        _ => {
            // the same word twice in a row, and once more later: all three records must be kept
            other.push(WordWeightRecord::new("猫".into(), vec![1, 2], "a".into()).unwrap());
            other.push(WordWeightRecord::new("猫".into(), vec![30, 40], "b".into()).unwrap());
            other.push(WordWeightRecord::new("火星".into(), vec![5, 6, 7], "".into()).unwrap());
            other.push(WordWeightRecord::new("猫".into(), vec![500, 600], "c".into()).unwrap());
            // records that change no score (all weights zero) are records all the same: kept, with their comments
            other.push(WordWeightRecord::new("火星人".into(), vec![0, 0, 0, 0], "no effect, still a record".into()).unwrap());
            other.insert(0, WordWeightRecord::new("星".into(), vec![0, 0], "".into()).unwrap());
        }
    }
    let n_tag_models = model.tag_models().len();
    model.replace_dictionary(other.clone());
    if model.dictionary().len() != other.len() || model.tag_models().len() != n_tag_models {
        return Some(desc(&format!("rep:{variant}"), "dictionary()/tag_models() after replace are not the argument / the old tag models"));
    }
    for (a, b) in model.dictionary().iter().zip(&other) {
        if a.get_word() != b.get_word() || a.get_weights() != b.get_weights() || a.get_comment() != b.get_comment() {
            return Some(desc(&format!("rep:{variant}"), "stored dictionary differs from the argument"));
        }
    }
    model.replace_dictionary(dict);
    if model.to_vec().ok()? != original {
        return Some(desc(&format!("rep:{variant}"), "restoring the dictionary does not restore the model: something else changed"));
    }
    None
}

// ---- the model tool: dump the dictionary, replace it with the unmodified dump (bounded, process level) ----
const CLI_WORDS: &[(&str, &str)] = &[
    // the column names of the dump themselves, as the FIRST records (a reader that "recognises" a header by its content
    // eats them)
    ("word", "comment"), ("weights", "word"),
    ("猫", "名詞"), ("火星", ""), ("a,b", "comma, in word and comment"), ("\"q\"", "quote \"x\""), (" a", " leading space"), ("b ", "trailing space "),
    ("a b", "inner  spaces"), ("tab\tx", "tab\there"), ("改\n行", "line\nbreak"), ("👨‍👩‍👧", "zwj"), ("x", " "), ("'", "'"),
    // a word / comment starting with the CSV comment character
    ("#火星", "# remark"), ("#", "#"),
    // cells a spreadsheet would take for formulas, and cells that look like an ESCAPED formula already
    ("=1+1", "@x"), ("'-", "'=not a formula"), ("'@", "'+"), ("-", "+"),
];

fn run_tool(args: &[String]) -> Result<(), String> {
    let dir = std::env::var("VP_CLI_DIR").map_err(|_| "VP_CLI_DIR not set".to_string())?;
    let o = std::process::Command::new(std::path::Path::new(&dir).join("manipulate_model")).args(args).output().map_err(|e| e.to_string())?;
    if o.status.success() { Ok(()) } else { Err(format!("exit {:?}: {}", o.status.code(), String::from_utf8_lossy(&o.stderr).lines().last().unwrap_or(""))) }
}

fn zst_write(path: &std::path::Path, bytes: &[u8]) {
    use std::io::Write;
    let mut e = zstd::Encoder::new(std::fs::File::create(path).unwrap(), 3).unwrap();
    e.write_all(bytes).unwrap();
    e.finish().unwrap();
}

fn zst_read(path: &std::path::Path) -> Vec<u8> {
    use std::io::Read;
    let mut d = zstd::Decoder::new(std::fs::File::open(path).unwrap()).unwrap();
    let mut v = vec![];
    d.read_to_end(&mut v).unwrap();
    v
}

fn check_cli(variant: usize) -> Option<String> {
    let arg = format!("cli:{variant}");
    crate::mark(&arg);
    let dir = std::path::Path::new(env!("CARGO_MANIFEST_DIR")).join("../out/c19");
    std::fs::create_dir_all(&dir).unwrap();
    let bytes = std::fs::read("/repo/resources/model.bin").ok()?;
    let (mut model, _) = Model::read_slice(&bytes).ok()?;
    // variant 0: the shipped dictionary; 1: empty; 2..: awkward words and comments, one more per variant
    let dict: Vec<WordWeightRecord> = match variant {
        0 => model.dictionary().to_vec(),
        1 => vec![],
        v => CLI_WORDS[..(v - 1).min(CLI_WORDS.len())].iter().enumerate().map(|(i, (w, c))| {
            let n = w.chars().count();
            // (every third record carries weights that need all 32 bits: not representable as f32 or in 16 bits; every fifth
            // only zeros: a record that changes no score is a record all the same)
            let big = [16_777_217, -16_777_219, i32::MAX, i32::MIN, 1_000_000_007, -2_147_483_647];
            WordWeightRecord::new(w.to_string(), (0..=n as i32).map(|k| if i % 3 == 2 { big[(k as usize + i) % big.len()] } else if i % 5 == 4 { 0 } else { k * 7 - 3 * i as i32 }).collect(), c.to_string()).unwrap()
        }).collect(),
    };
    model.replace_dictionary(dict);
    let original = model.to_vec().ok()?;
    let (m_in, csv, m_out) = (dir.join("in.zst"), dir.join("dict.csv"), dir.join("out.zst"));
    zst_write(&m_in, &original);
    let s = |p: &std::path::Path| p.to_string_lossy().to_string();
    if let Err(e) = run_tool(&["--model-in".into(), s(&m_in), "--dump-dict".into(), s(&csv)]) {
        return Some(desc(&arg, &format!("manipulate_model --dump-dict fails: {}", e)));
    }
    if let Err(e) = run_tool(&["--model-in".into(), s(&m_in), "--replace-dict".into(), s(&csv), "--model-out".into(), s(&m_out)]) {
        return Some(desc(&arg, &format!("manipulate_model --replace-dict with the unmodified dump fails: {}", e)));
    }
    let back = zst_read(&m_out);
    if back != original {
        let (a, _) = Model::read_slice(&back).ok()?;
        let words: Vec<String> = a.dictionary().iter().map(|r| format!("{:?}/{:?}/{:?}", r.get_word(), r.get_weights(), r.get_comment())).collect();
        return Some(desc(&arg, &format!("dump + replace with the unmodified dump does not reproduce the model byte for byte; dictionary now {:?}", words)));
    }
    // the same dump put into ANOTHER model (the shipped one with a two-word dictionary, never empty) gives the same model again: replace
    // really replaces, whatever the old and the new dictionary are (an empty dump empties the dictionary)
    let m_ship = dir.join("ship.zst");
    {
        let (mut other, _) = Model::read_slice(&bytes).ok()?;
        other.replace_dictionary(vec![
            WordWeightRecord::new("猫".to_string(), vec![1, 2], "x".to_string()).unwrap(),
            WordWeightRecord::new("火星人".to_string(), vec![3, 4, 5, 6], String::new()).unwrap(),
        ]);
        zst_write(&m_ship, &other.to_vec().ok()?);
    }
    if let Err(e) = run_tool(&["--model-in".into(), s(&m_ship), "--replace-dict".into(), s(&csv), "--model-out".into(), s(&m_out)]) {
        return Some(desc(&arg, &format!("manipulate_model --replace-dict on the other model fails: {}", e)));
    }
    let back = zst_read(&m_out);
    if back != original {
        let n = Model::read_slice(&back).ok().map(|(a, _)| a.dictionary().len());
        return Some(desc(&arg, &format!("replacing the other model's (two-word) dictionary with the dump of {} record(s) does not give the model holding that dictionary (result has {:?} records)", Model::read_slice(&original).ok()?.0.dictionary().len(), n)));
    }
    // a record whose weight count does not match the word length is rejected
    if variant == 0 {
        std::fs::write(&csv, "word,weights,comment\n猫,1 2 3,too many\n").unwrap();
        if run_tool(&["--model-in".into(), s(&m_in), "--replace-dict".into(), s(&csv), "--model-out".into(), s(&m_out)]).is_ok() {
            return Some(desc(&arg, "a record with 3 weights for a one-character word is accepted by --replace-dict"));
        }
    }
    None
}

pub fn search() -> Option<String> {
    if std::env::var("VP_CLI_DIR").is_ok() {
        for v in 0..(CLI_WORDS.len() + 2) {
            if let Some(d) = check_cli(v) {
                return Some(d);
            }
        }
    }
    for w in WORDS {
        for n in 0..8 {
            if let Some(d) = check_record(w, n) {
                return Some(d);
            }
        }
    }
    for v in 0..4 {
        if let Some(d) = check_replace(v) {
            return Some(d);
        }
    }
    // score-difference clause on seeded random models: replacing the dictionary changes every boundary score by
    // exactly (new entries' contributions) - (old entries' contributions), computed by the brute-force linear model
    let base = std::env::var("VERIF_SEED").ok().and_then(|s| s.parse::<u64>().ok()).unwrap_or(0);
    for i in 0..150u64 {
        let seed = base.wrapping_mul(7919).wrapping_add(i);
        if let Some(d) = check_scores(seed) {
            return Some(d);
        }
    }
    None
}

fn check_scores(seed: u64) -> Option<String> {
    use crate::gen::{gen_model, gen_text, reference_scores, Rng};
    use vaporetto::{Predictor, Sentence};
    let arg = format!("sc:{seed}");
    let r = std::panic::catch_unwind(|| -> Option<String> {
        let mut r = Rng(seed);
        let md_old = gen_model(&mut r, false);
        let mut md_new = md_old.clone();
        md_new.dict_model = gen_model(&mut r, false).dict_model; // an unrelated random dictionary
        if seed % 3 == 0 {
            // duplicates (adjacent and separated) must all count
            let extra = md_new.dict_model.0.first().cloned();
            if let Some(e) = extra { md_new.dict_model.0.insert(0, e.clone()); md_new.dict_model.0.push(e); }
        }
        let (mut model, _) = Model::read_slice(&md_old.to_bytes()).ok()?;
        let new_dict: Vec<WordWeightRecord> = md_new.dict_model.0.iter()
            .map(|w| WordWeightRecord::new(w.word.clone(), w.weights.clone(), w.comment.clone()).unwrap()).collect();
        let p_old = Predictor::new(Model::read_slice(&md_old.to_bytes()).ok()?.0, false).ok()?;
        model.replace_dictionary(new_dict);
        let p_new = Predictor::new(model, false).ok()?;
        for _ in 0..5 {
            let text = gen_text(&mut r, 12);
            let mut a = Sentence::from_raw(text.clone()).ok()?;
            let mut b = Sentence::from_raw(text.clone()).ok()?;
            p_old.predict(&mut a);
            p_new.predict(&mut b);
            let got: Vec<i64> = a.boundary_scores().iter().zip(b.boundary_scores()).map(|(x, y)| *y as i64 - *x as i64).collect();
            let want: Vec<i64> = reference_scores(&md_old, &text).iter().zip(reference_scores(&md_new, &text)).map(|(x, y)| y - x).collect();
            if got != want {
                return Some(format!("score change after replace_dictionary on {:?}: expected {:?} actual {:?}", text, want, got));
            }
        }
        None
    });
    match r {
        Ok(None) => None,
        Ok(Some(w)) => Some(desc(&arg, &w)),
        Err(_) => Some(desc(&arg, "panic")),
    }
}

pub fn replay(arg: &str) -> Option<String> {
    if let Some(v) = arg.strip_prefix("cli:") {
        return check_cli(v.parse().ok()?);
    }
    if let Some(seed) = arg.strip_prefix("sc:") {
        return check_scores(seed.parse().ok()?);
    }
    if let Some(rest) = arg.strip_prefix("rec:") {
        let (n, w) = rest.split_once(':')?;
        return check_record(w, n.parse().ok()?);
    }
    check_replace(arg.strip_prefix("rep:")?.parse().ok()?)
}
