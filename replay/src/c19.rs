//! C19: replace_dictionary frame (through serialisation) and the record length check.
use vaporetto::{Model, WordWeightRecord};

fn desc(arg: &str, what: &str) -> String {
    format!("{{\"replay_arg\":{},\"what\":{}}}", crate::js(arg), crate::js(what))
}

const WORDS: &[&str] = &["", "a", "ab", "猫", "火星猫", "a,b", "\"q\"", "a b", "line\nbreak", "👨‍👩‍👧"];

fn check_record(word: &str, n: usize) -> Option<String> {
    let r = WordWeightRecord::new(word.to_string(), vec![1; n], "c".to_string());
    let want = n == word.chars().count() + 1;
    if r.is_ok() != want {
        return Some(desc(&format!("rec:{}:{}", n, word), "record accepted/rejected against the length rule"));
    }
    if let Ok(rec) = r {
        if rec.get_word() != word || rec.get_weights().len() != n || rec.get_comment() != "c" {
            return Some(desc(&format!("rec:{}:{}", n, word), "record does not store its arguments unchanged"));
        }
    }
    None
}

fn check_replace(variant: usize) -> Option<String> {
    let bytes = std::fs::read("/repo/resources/model.bin").ok()?;
    let (mut model, _) = Model::read_slice(&bytes).ok()?;
    let original = model.to_vec().ok()?;
    let dict: Vec<WordWeightRecord> = model.dictionary().to_vec();
    // 1. replacing with the unmodified dump reproduces the model byte for byte
    model.replace_dictionary(dict.clone());
    if model.to_vec().ok()? != original {
        return Some(desc(&format!("rep:{variant}"), "replace with the unmodified dictionary changes the serialised model"));
    }
    // 2. replacing with another dictionary changes only the dictionary: put the old one back and compare
    let mut other = dict.clone();
    match variant {
        0 => other.clear(),
        1 => other.push(WordWeightRecord::new("火星猫".into(), vec![1, -2, 3, -4], "x".into()).unwrap()),
        2 => { other.reverse(); }
        _ => {
            // the same word twice in a row, and once more later: all three records must be kept
            other.push(WordWeightRecord::new("猫".into(), vec![1, 2], "a".into()).unwrap());
            other.push(WordWeightRecord::new("猫".into(), vec![30, 40], "b".into()).unwrap());
            other.push(WordWeightRecord::new("火星".into(), vec![5, 6, 7], "".into()).unwrap());
            other.push(WordWeightRecord::new("猫".into(), vec![500, 600], "c".into()).unwrap());
        }
    }
    let n_tag_models = model.tag_models().len();
    model.replace_dictionary(other.clone());
    if model.dictionary().len() != other.len() || model.tag_models().len() != n_tag_models {
        return Some(desc(&format!("rep:{variant}"), "dictionary()/tag_models() after replace are not the argument / the old tag models"));
    }
    for (a, b) in model.dictionary().iter().zip(&other) {
        if a.get_word() != b.get_word() || a.get_weights() != b.get_weights() || a.get_comment() != b.get_comment() {
            return Some(desc(&format!("rep:{variant}"), "stored dictionary differs from the argument"));
        }
    }
    model.replace_dictionary(dict);
    if model.to_vec().ok()? != original {
        return Some(desc(&format!("rep:{variant}"), "restoring the dictionary does not restore the model: something else changed"));
    }
    None
}

pub fn search() -> Option<String> {
    for w in WORDS {
        for n in 0..8 {
            if let Some(d) = check_record(w, n) {
                return Some(d);
            }
        }
    }
    for v in 0..4 {
        if let Some(d) = check_replace(v) {
            return Some(d);
        }
    }
    // score-difference clause on seeded random models: replacing the dictionary changes every boundary score by
    // exactly (new entries' contributions) - (old entries' contributions), computed by the brute-force linear model
    let base = std::env::var("VERIF_SEED").ok().and_then(|s| s.parse::<u64>().ok()).unwrap_or(0);
    for i in 0..150u64 {
        let seed = base.wrapping_mul(7919).wrapping_add(i);
        if let Some(d) = check_scores(seed) {
            return Some(d);
        }
    }
    None
}

fn check_scores(seed: u64) -> Option<String> {
    use crate::gen::{gen_model, gen_text, reference_scores, Rng};
    use vaporetto::{Predictor, Sentence};
    let arg = format!("sc:{seed}");
    let r = std::panic::catch_unwind(|| -> Option<String> {
        let mut r = Rng(seed);
        let md_old = gen_model(&mut r, false);
        let mut md_new = md_old.clone();
        md_new.dict_model = gen_model(&mut r, false).dict_model; // an unrelated random dictionary
        if seed % 3 == 0 {
            // duplicates (adjacent and separated) must all count
            let extra = md_new.dict_model.0.first().cloned();
            if let Some(e) = extra { md_new.dict_model.0.insert(0, e.clone()); md_new.dict_model.0.push(e); }
        }
        let (mut model, _) = Model::read_slice(&md_old.to_bytes()).ok()?;
        let new_dict: Vec<WordWeightRecord> = md_new.dict_model.0.iter()
            .map(|w| WordWeightRecord::new(w.word.clone(), w.weights.clone(), w.comment.clone()).unwrap()).collect();
        let p_old = Predictor::new(Model::read_slice(&md_old.to_bytes()).ok()?.0, false).ok()?;
        model.replace_dictionary(new_dict);
        let p_new = Predictor::new(model, false).ok()?;
        for _ in 0..5 {
            let text = gen_text(&mut r, 12);
            let mut a = Sentence::from_raw(text.clone()).ok()?;
            let mut b = Sentence::from_raw(text.clone()).ok()?;
            p_old.predict(&mut a);
            p_new.predict(&mut b);
            let got: Vec<i64> = a.boundary_scores().iter().zip(b.boundary_scores()).map(|(x, y)| *y as i64 - *x as i64).collect();
            let want: Vec<i64> = reference_scores(&md_old, &text).iter().zip(reference_scores(&md_new, &text)).map(|(x, y)| y - x).collect();
            if got != want {
                return Some(format!("score change after replace_dictionary on {:?}: expected {:?} actual {:?}", text, want, got));
            }
        }
        None
    });
    match r {
        Ok(None) => None,
        Ok(Some(w)) => Some(desc(&arg, &w)),
        Err(_) => Some(desc(&arg, "panic")),
    }
}

pub fn replay(arg: &str) -> Option<String> {
    if let Some(seed) = arg.strip_prefix("sc:") {
        return check_scores(seed.parse().ok()?);
    }
    if let Some(rest) = arg.strip_prefix("rec:") {
        let (n, w) = rest.split_once(':')?;
        return check_record(w, n.parse().ok()?);
    }
    check_replace(arg.strip_prefix("rep:")?.parse().ok()?)
}
