//! C19: replace_dictionary frame (through serialisation) and the record length check.
use vaporetto::{Model, WordWeightRecord};

fn desc(arg: &str, what: &str) -> String {
    format!("{{\"replay_arg\":{},\"what\":{}}}", crate::js(arg), crate::js(what))
}

const WORDS: &[&str] = &["", "a", "ab", "猫", "火星猫", "a,b", "\"q\"", "a b", "line\nbreak", "👨‍👩‍👧"];

fn check_record(word: &str, n: usize) -> Option<String> {
    let r = WordWeightRecord::new(word.to_string(), vec![1; n], "c".to_string());
    let want = n == word.chars().count() + 1;
    if r.is_ok() != want {
        return Some(desc(&format!("rec:{}:{}", n, word), "record accepted/rejected against the length rule"));
    }
    if let Ok(rec) = r {
        if rec.get_word() != word || rec.get_weights().len() != n || rec.get_comment() != "c" {
            return Some(desc(&format!("rec:{}:{}", n, word), "record does not store its arguments unchanged"));
        }
    }
    None
}

fn check_replace(variant: usize) -> Option<String> {
    let bytes = std::fs::read("/repo/resources/model.bin").ok()?;
    let (mut model, _) = Model::read_slice(&bytes).ok()?;
    let original = model.to_vec().ok()?;
    let dict: Vec<WordWeightRecord> = model.dictionary().to_vec();
    // 1. replacing with the unmodified dump reproduces the model byte for byte
    model.replace_dictionary(dict.clone());
    if model.to_vec().ok()? != original {
        return Some(desc(&format!("rep:{variant}"), "replace with the unmodified dictionary changes the serialised model"));
    }
    // 2. replacing with another dictionary changes only the dictionary: put the old one back and compare
    let mut other = dict.clone();
    match variant {
        0 => other.clear(),
        1 => other.push(WordWeightRecord::new("火星猫".into(), vec![1, -2, 3, -4], "x".into()).unwrap()),
        _ => { other.reverse(); }
    }
    let n_tag_models = model.tag_models().len();
    model.replace_dictionary(other.clone());
    if model.dictionary().len() != other.len() || model.tag_models().len() != n_tag_models {
        return Some(desc(&format!("rep:{variant}"), "dictionary()/tag_models() after replace are not the argument / the old tag models"));
    }
    for (a, b) in model.dictionary().iter().zip(&other) {
        if a.get_word() != b.get_word() || a.get_weights() != b.get_weights() || a.get_comment() != b.get_comment() {
            return Some(desc(&format!("rep:{variant}"), "stored dictionary differs from the argument"));
        }
    }
    model.replace_dictionary(dict);
    if model.to_vec().ok()? != original {
        return Some(desc(&format!("rep:{variant}"), "restoring the dictionary does not restore the model: something else changed"));
    }
    None
}

pub fn search() -> Option<String> {
    for w in WORDS {
        for n in 0..8 {
            if let Some(d) = check_record(w, n) {
                return Some(d);
            }
        }
    }
    for v in 0..3 {
        if let Some(d) = check_replace(v) {
            return Some(d);
        }
    }
    None
}

pub fn replay(arg: &str) -> Option<String> {
    if let Some(rest) = arg.strip_prefix("rec:") {
        let (n, w) = rest.split_once(':')?;
        return check_record(w, n.parse().ok()?);
    }
    check_replace(arg.strip_prefix("rep:")?.parse().ok()?)
}
