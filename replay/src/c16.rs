//! C16 normaliser: exhaustive over all Unicode scalar values + positional independence on strings.
use vaporetto_rules::{string_filters::KyteaFullwidthFilter, StringFilter};

fn check_char(c: char) -> Option<String> {
    match std::panic::catch_unwind(move || check_char_inner(c)) {
        Ok(r) => r,
        Err(_) => Some(format!("the normaliser panics on U+{:04X}", c as u32)),
    }
}

fn check_char_inner(c: char) -> Option<String> {
    let f = KyteaFullwidthFilter;
    let s = c.to_string();
    let r: String = f.filter(s.as_str());
    if r.chars().count() != 1 {
        return Some(format!("U+{:04X} maps to {} characters", c as u32, r.chars().count()));
    }
    let r2: String = f.filter(r.as_str());
    if r2 != r {
        return Some(format!("not idempotent at U+{:04X}: {:?} -> {:?}", c as u32, r, r2));
    }
    // control characters (NUL, TAB, CR, LF, ... U+0000..U+001F, U+007F..U+009F) have no full-width form: a width normaliser
    // leaves them alone (a rewritten NUL turns a line the pipeline must reject into an accepted one; rewritten CR / LF move
    // the line breaks). Nothing is demanded of other characters: which of them the table holds is the table's business.
    let u = c as u32;
    if (u <= 0x1F || (0x7F..=0x9F).contains(&u)) && r != s {
        return Some(format!("the control character U+{:04X} is changed to {:?}", u, r));
    }
    if c != '\0' && r.contains('\0') {
        return Some(format!("U+{:04X} maps to NUL", c as u32));
    }
    None
}

fn desc(arg: &str, what: &str) -> String {
    format!("{{\"replay_arg\":{},\"what\":{}}}", crate::js(arg), crate::js(what))
}

pub fn search() -> Option<String> {
    for u in 0..=0x10FFFFu32 {
        if let Some(c) = char::from_u32(u) {
            if let Some(w) = check_char(c) {
                return Some(desc(&format!("{:x}", u), &w));
            }
        }
    }
    // positional independence: filter(xy) == filter(x) ++ filter(y) on a few mixed strings
    let f = KyteaFullwidthFilter;
    let samples = ["a1!漢ｱ", "Vaporetto-1.0 & co.", "\"'+:=@*&!", "ｱｲｳ｡｢｣､･", "─–-~", "0123456789", "zZ"];
    for s in samples {
        let whole: String = match std::panic::catch_unwind(|| { let w: String = KyteaFullwidthFilter.filter(s); w }) {
            Ok(w) => w,
            Err(_) => return Some(desc(&format!("s:{}", s), "the normaliser panics on this string")),
        };
        let parts: String = s.chars().map(|c| { let t: String = f.filter(c.to_string().as_str()); t }).collect();
        if whole != parts || whole.chars().count() != s.chars().count() {
            return Some(desc(&format!("s:{}", s), "string result is not the character-wise image"));
        }
    }
    // ... and on every ordered PAIR of "interesting" characters: every character the table changes, its image, all kana,
    // the combining / half-width sound marks, joiners and line ends (sequence-level rewriting -- composing a kana with a
    // following sound mark, collapsing CR LF -- changes the number of characters although every single character is mapped
    // as before)
    let mut set: Vec<char> = vec!['\u{3099}', '\u{309a}', '\u{ff9e}', '\u{ff9f}', '\u{301}', '\u{200d}', '\u{fe0f}', '\r', '\n', ' ', '\u{3000}', 'a', '漢'];
    for u in 0..=0x10FFFFu32 {
        if let Some(c) = char::from_u32(u) {
            let t: String = f.filter(c.to_string().as_str());
            if t != c.to_string() { set.push(c); set.extend(t.chars()); }
        }
    }
    set.extend((0x3041..=0x30ffu32).filter_map(char::from_u32));
    set.sort(); set.dedup();
    let image: std::collections::HashMap<char, String> = set.iter().map(|&c| { let t: String = f.filter(c.to_string().as_str()); (c, t) }).collect();
    for &a in &set {
        for &b in &set {
            let s: String = [a, b].iter().collect();
            let whole: String = match std::panic::catch_unwind(|| { let w: String = KyteaFullwidthFilter.filter(s.as_str()); w }) {
                Ok(w) => w,
                Err(_) => return Some(desc(&format!("s:{}", s), "the normaliser panics on this string")),
            };
            if whole != format!("{}{}", image[&a], image[&b]) {
                return Some(desc(&format!("s:{}", s), &format!("the image {:?} of the two-character string {:?} is not the character-wise image", whole, s)));
            }
        }
    }
    None
}

pub fn replay(arg: &str) -> Option<String> {
    if let Some(s) = arg.strip_prefix("s:") {
        let f = KyteaFullwidthFilter;
        let whole: String = f.filter(s);
        if whole.chars().count() != s.chars().count() {
            return Some(desc(arg, "length not preserved"));
        }
        let parts: String = s.chars().map(|c| { let t: String = f.filter(c.to_string().as_str()); t }).collect();
        if whole != parts {
            return Some(desc(arg, "string result is not the character-wise image"));
        }
        return None;
    }
    let u = u32::from_str_radix(arg, 16).ok()?;
    check_char(char::from_u32(u)?).map(|w| desc(arg, &w))
}
