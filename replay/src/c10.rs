//! C10: the examples handed to the learner (counterexample search / replay only; the deciding step is the contract of
//! Trainer::add_example in unit X_train). Observable through the public API: adding sentences WITHOUT annotations must
//! change neither the number of registered features nor the trained model.
use vaporetto::{Sentence, SolverType, Trainer};

const CORPUS: [&str; 6] = ["火星 猫 だ", "これ は 猫 です", "a b c ab", "猫 と 火星 人", "ab c ab c", "です から 猫 だ"];
const UNANNOTATED: [&str; 4] = ["xyz", "猫はいる", "q", "これは新しい文字列だ"];
// (char window, char n-gram, type window, type n-gram, dictionary?, max word length)
const CONFIGS: [(u8, u8, u8, u8, bool, u8); 5] = [(1, 1, 1, 1, false, 0), (2, 2, 2, 2, false, 0), (3, 2, 1, 3, true, 2), (2, 3, 3, 1, true, 4), (1, 2, 2, 2, true, 1)];

fn run(cfg: usize, n_unannotated: usize, partial: bool) -> Result<(usize, Option<Vec<u8>>), String> {
    let (cw, cn, tw, tn, dict, ml) = CONFIGS[cfg];
    let annotated: Vec<Sentence> = CORPUS.iter().map(|l| Sentence::from_tokenized(l).unwrap()).collect();
    let mut extra: Vec<Sentence> = UNANNOTATED[..n_unannotated].iter().map(|t| Sentence::from_raw(*t).unwrap()).collect();
    if partial && n_unannotated > 0 {
        // the same thing written in the partial-annotation format: every label unknown
        extra.push(Sentence::from_partial_annotation("新 し い 文").unwrap());
    }
    let words: Vec<String> = if dict { vec!["猫".into(), "火星".into(), "ab".into(), "です".into()] } else { vec![] };
    let mut t = Trainer::new(cw, cn, tw, tn, words, ml, &[]).map_err(|e| e.to_string())?;
    for s in &annotated {
        t.add_example(s);
    }
    for s in &extra {
        t.add_example(s);
    }
    let n = t.n_features();
    let model = t.train(0.01, 1.0, SolverType::L1RegularizedL2LossSVC).map_err(|e| e.to_string())?;
    Ok((n, Some(model.to_vec().map_err(|e| e.to_string())?)))
}

fn check(cfg: usize, n_unannotated: usize, partial: bool) -> Option<String> {
    let arg = format!("{}:{}:{}", cfg, n_unannotated, partial as u8);
    crate::mark(&arg);
    let r = std::panic::catch_unwind(move || {
        let base = run(cfg, 0, false);
        let with = run(cfg, n_unannotated, partial);
        match (base, with) {
            (Ok((n0, m0)), Ok((n1, m1))) => {
                if n0 != n1 {
                    return Some(format!("adding {} unannotated sentence(s) changed the number of registered features from {} to {}", n_unannotated + partial as usize, n0, n1));
                }
                // (the trained models themselves are not compared: two trainings of the SAME corpus already differ,
                //  because the sparse rows are collected from a randomly seeded hash map)
                let _ = (m0, m1);
                None
            }
            (Ok(_), Err(e)) => Some(format!("training fails once unannotated sentences are added: {}", e)),
            (Err(e), _) => Some(format!("training the annotated corpus alone fails: {}", e)),
        }
    });
    let r = match r {
        Ok(r) => r,
        Err(_) => Some("panic in Trainer::add_example / train".to_string()),
    };
    r.map(|d| format!("{{\"replay_arg\":{},\"config\":{},\"actual\":{}}}", crate::js(&arg), crate::js(&format!("{:?}", CONFIGS[cfg])), crate::js(&d)))
}

// ---- full reference of the training problem through the verification hook (Trainer::verif_examples, cfg vaporetto_verif) ----
#[cfg(vaporetto_verif)]
mod full {
    use vaporetto::{CharacterBoundary as B, Sentence, Trainer};

    const WORDS: [&str; 8] = ["あいう", "いうえ", "あいうえ", "いうえお", "う", "ab", "b", "abcab"];
    const SENTS: [&str; 8] = ["あ-い|う え-お", "あ-い-う-え", "a-b|c-a-b", "う|う|う", "あ|い", "x", "a b c", "あ-い-う-え-お|a-b-c-a-b"];

    /// the examples the statement demands for one sentence
    fn expected(s: &Sentence, cfg: (u8, u8, u8, u8), words: &[&str], max_len: u8) -> Vec<(Vec<(String, f64)>, f64)> {
        let per_boundary = crate::trainref::features(s, cfg, words, max_len);
        let mut out = vec![];
        for (b, mut feats) in s.boundaries().iter().zip(per_boundary) {
            if *b == B::Unknown {
                continue;
            }
            feats.sort();
            let mut row: Vec<(String, f64)> = vec![];
            for f in feats {
                match row.last_mut() {
                    Some(last) if last.0 == f => last.1 += 1.0,
                    _ => row.push((f, 1.0)),
                }
            }
            out.push((row, if *b == B::WordBoundary { 1.0 } else { 0.0 }));
        }
        out
    }

    pub fn check(code: usize) -> Option<String> {
        // code = configuration index * 4 + dictionary setting
        // (the last three: sizes of zero -- boundaries no dictionary word touches then have NO feature at all, and are examples all the same)
        let cfgs: [(u8, u8, u8, u8); 10] = [(1, 1, 1, 1), (2, 2, 2, 2), (3, 2, 1, 3), (2, 3, 3, 1), (1, 3, 2, 2), (3, 3, 3, 3), (1, 1, 3, 2), (1, 0, 1, 0), (0, 1, 0, 1), (2, 0, 0, 2)];
        let cfg = cfgs[(code / 4) % cfgs.len()];
        let (words, max_len): (Vec<&str>, u8) = match code % 4 {
            0 => (vec![], 0),
            1 => (WORDS.to_vec(), 1),
            2 => (WORDS.to_vec(), 2),
            _ => (WORDS.to_vec(), 4),
        };
        let sents: Vec<Sentence> = SENTS.iter().map(|l| Sentence::from_partial_annotation(l).unwrap()).collect();
        let mut t = match Trainer::new(cfg.0, cfg.1, cfg.2, cfg.3, words.iter().map(|w| w.to_string()).collect(), max_len, &[]) {
            Ok(t) => t,
            Err(e) => return Some(format!("Trainer::new fails: {}", e)),
        };
        let mut want = vec![];
        for s in &sents {
            t.add_example(s);
            want.extend(expected(s, cfg, &words, max_len));
        }
        let got = t.verif_examples();
        if got.len() != want.len() {
            return Some(format!("{} examples handed to the learner, the annotated boundaries are {}", got.len(), want.len()));
        }
        for (k, (g, w)) in got.iter().zip(&want).enumerate() {
            if g != w {
                return Some(format!("example {} (config {:?}, dictionary bucket {}): expected {:?}, the trainer built {:?}", k, cfg, max_len, w, g));
            }
        }
        None
    }
}

pub fn search() -> Option<String> {
    #[cfg(vaporetto_verif)]
    for code in 0..40 {
        let arg = format!("full:{}", code);
        crate::mark(&arg);
        let r = match std::panic::catch_unwind(move || full::check(code)) {
            Ok(r) => r,
            Err(_) => Some("panic in Trainer::add_example".to_string()),
        };
        if let Some(d) = r {
            return Some(format!("{{\"replay_arg\":{},\"actual\":{}}}", crate::js(&arg), crate::js(&d)));
        }
    }
    for cfg in 0..CONFIGS.len() {
        for n in 1..=UNANNOTATED.len() {
            for partial in [false, true] {
                if let Some(d) = check(cfg, n, partial) {
                    return Some(d);
                }
            }
        }
    }
    None
}

pub fn replay(input: &str) -> Option<String> {
    if let Some(code) = input.strip_prefix("full:") {
        #[cfg(vaporetto_verif)]
        {
            let code: usize = code.parse().unwrap();
            let r = match std::panic::catch_unwind(move || full::check(code)) {
                Ok(r) => r,
                Err(_) => Some("panic in Trainer::add_example".to_string()),
            };
            return r.map(|d| format!("{{\"replay_arg\":{},\"actual\":{}}}", crate::js(input), crate::js(&d)));
        }
        #[cfg(not(vaporetto_verif))]
        {
            let _ = code;
            return None;
        }
    }
    let p: Vec<usize> = input.split(':').map(|x| x.parse().unwrap()).collect();
    check(p[0], p[1], p[2] != 0)
}
