//! C10: the examples handed to the learner (counterexample search / replay only; the deciding step is the contract of
//! Trainer::add_example in unit X_train). Observable through the public API: adding sentences WITHOUT annotations must
//! change neither the number of registered features nor the trained model.
use vaporetto::{Sentence, SolverType, Trainer};

const CORPUS: [&str; 6] = ["火星 猫 だ", "これ は 猫 です", "a b c ab", "猫 と 火星 人", "ab c ab c", "です から 猫 だ"];
const UNANNOTATED: [&str; 4] = ["xyz", "猫はいる", "q", "これは新しい文字列だ"];
// (char window, char n-gram, type window, type n-gram, dictionary?, max word length)
const CONFIGS: [(u8, u8, u8, u8, bool, u8); 5] = [(1, 1, 1, 1, false, 0), (2, 2, 2, 2, false, 0), (3, 2, 1, 3, true, 2), (2, 3, 3, 1, true, 4), (1, 2, 2, 2, true, 1)];

fn run(cfg: usize, n_unannotated: usize, partial: bool) -> Result<(usize, Option<Vec<u8>>), String> {
    let (cw, cn, tw, tn, dict, ml) = CONFIGS[cfg];
    let annotated: Vec<Sentence> = CORPUS.iter().map(|l| Sentence::from_tokenized(l).unwrap()).collect();
    let mut extra: Vec<Sentence> = UNANNOTATED[..n_unannotated].iter().map(|t| Sentence::from_raw(*t).unwrap()).collect();
    if partial && n_unannotated > 0 {
        // the same thing written in the partial-annotation format: every label unknown
        extra.push(Sentence::from_partial_annotation("新 し い 文").unwrap());
    }
    let words: Vec<String> = if dict { vec!["猫".into(), "火星".into(), "ab".into(), "です".into()] } else { vec![] };
    let mut t = Trainer::new(cw, cn, tw, tn, words, ml, &[]).map_err(|e| e.to_string())?;
    for s in &annotated {
        t.add_example(s);
    }
    for s in &extra {
        t.add_example(s);
    }
    let n = t.n_features();
    let model = t.train(0.01, 1.0, SolverType::L1RegularizedL2LossSVC).map_err(|e| e.to_string())?;
    Ok((n, Some(model.to_vec().map_err(|e| e.to_string())?)))
}

fn check(cfg: usize, n_unannotated: usize, partial: bool) -> Option<String> {
    let arg = format!("{}:{}:{}", cfg, n_unannotated, partial as u8);
    crate::mark(&arg);
    let r = std::panic::catch_unwind(move || {
        let base = run(cfg, 0, false);
        let with = run(cfg, n_unannotated, partial);
        match (base, with) {
            (Ok((n0, m0)), Ok((n1, m1))) => {
                if n0 != n1 {
                    return Some(format!("adding {} unannotated sentence(s) changed the number of registered features from {} to {}", n_unannotated + partial as usize, n0, n1));
                }
                // (the trained models themselves are not compared: two trainings of the SAME corpus already differ,
                //  because the sparse rows are collected from a randomly seeded hash map)
                let _ = (m0, m1);
                None
            }
            (Ok(_), Err(e)) => Some(format!("training fails once unannotated sentences are added: {}", e)),
            (Err(e), _) => Some(format!("training the annotated corpus alone fails: {}", e)),
        }
    });
    let r = match r {
        Ok(r) => r,
        Err(_) => Some("panic in Trainer::add_example / train".to_string()),
    };
    r.map(|d| format!("{{\"replay_arg\":{},\"config\":{},\"actual\":{}}}", crate::js(&arg), crate::js(&format!("{:?}", CONFIGS[cfg])), crate::js(&d)))
}

pub fn search() -> Option<String> {
    for cfg in 0..CONFIGS.len() {
        for n in 1..=UNANNOTATED.len() {
            for partial in [false, true] {
                if let Some(d) = check(cfg, n, partial) {
                    return Some(d);
                }
            }
        }
    }
    None
}

pub fn replay(input: &str) -> Option<String> {
    let p: Vec<usize> = input.split(':').map(|x| x.parse().unwrap()).collect();
    check(p[0], p[1], p[2] != 0)
}
