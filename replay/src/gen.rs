//! Seeded generator of well-formed models (as bytes, through mirror structs with the same field
//! order as vaporetto's private model types) and a brute-force reference of the linear model.
use bincode::{Decode, Encode};

#[derive(Encode, Decode, Clone)]
pub struct NgramData<T> { pub ngram: T, pub weights: Vec<i32> }
#[derive(Encode, Decode, Clone)]
pub struct NgramModel<T>(pub Vec<NgramData<T>>);
#[derive(Encode, Decode, Clone)]
pub struct TagWeight { pub rel_position: u8, pub weights: Vec<i32> }
#[derive(Encode, Decode, Clone)]
pub struct TagNgramData<T> { pub ngram: T, pub weights: Vec<TagWeight> }
#[derive(Encode, Decode, Clone)]
pub struct TagNgramModel<T>(pub Vec<TagNgramData<T>>);
#[derive(Encode, Decode, Clone)]
pub struct WordWeightRecord { pub word: String, pub weights: Vec<i32>, pub comment: String }
#[derive(Encode, Decode, Clone)]
pub struct DictModel(pub Vec<WordWeightRecord>);
#[derive(Encode, Decode, Clone)]
pub struct TagModel {
    pub token: String,
    pub tags: Vec<Vec<String>>,
    pub char_ngram_model: TagNgramModel<String>,
    pub type_ngram_model: TagNgramModel<Vec<u8>>,
    pub bias: Vec<i32>,
}
#[derive(Encode, Decode, Clone)]
pub struct ModelData {
    pub char_ngram_model: NgramModel<String>,
    pub type_ngram_model: NgramModel<Vec<u8>>,
    pub dict_model: DictModel,
    pub bias: i32,
    pub char_window_size: u8,
    pub type_window_size: u8,
    pub tag_models: Vec<TagModel>,
}

pub const MAGIC: &[u8] = b"VaporettoTokenizer 0.5.0\n";

impl ModelData {
    /// decodes the bytes written by Model::write / Model::to_vec (same field order as the private model types)
    #[allow(dead_code)]
    pub fn from_bytes(b: &[u8]) -> Option<Self> {
        if !b.starts_with(MAGIC) {
            return None;
        }
        bincode::decode_from_slice(&b[MAGIC.len()..], bincode::config::standard()).ok().map(|(m, _)| m)
    }
    pub fn to_bytes(&self) -> Vec<u8> {
        let mut v = MAGIC.to_vec();
        v.extend(bincode::encode_to_vec(self, bincode::config::standard()).unwrap());
        v
    }
}

pub struct Rng(pub u64);
impl Rng {
    pub fn next(&mut self) -> u64 {
        // splitmix64
        self.0 = self.0.wrapping_add(0x9e3779b97f4a7c15);
        let mut z = self.0;
        z = (z ^ (z >> 30)).wrapping_mul(0xbf58476d1ce4e5b9);
        z = (z ^ (z >> 27)).wrapping_mul(0x94d049bb133111eb);
        z ^ (z >> 31)
    }
    pub fn below(&mut self, n: usize) -> usize { (self.next() % n as u64) as usize }
    pub fn weight(&mut self) -> i32 { self.below(201) as i32 - 100 }
    pub fn small_weight(&mut self) -> i32 { self.below(3) as i32 - 1 }
}

pub const ALPHABET: &[char] = &['a', 'b', '1', 'あ', 'ア', '漢', '\u{2000b}', 'é', ' '];

pub const CLASS_EDGES: &[u32] = &[
    0x2F, 0x30, 0x39, 0x3A, 0x40, 0x41, 0x5A, 0x5B, 0x5F, 0x60, 0x61, 0x7A, 0x7B, 0xFF0F, 0xFF10, 0xFF19, 0xFF1A, 0xFF20, 0xFF21, 0xFF3A, 0xFF3B,
    0xFF40, 0xFF41, 0xFF5A, 0xFF5B, 0x303F, 0x3040, 0x3041, 0x3096, 0x3097, 0x309F, 0x30A0, 0x30FA, 0x30FB, 0x30FC, 0x30FF, 0x3100, 0xFF65, 0xFF66,
    0xFF9F, 0xFFA0, 0x33FF, 0x3400, 0x4DBF, 0x4DC0, 0x4DFF, 0x4E00, 0x9FFF, 0xA000, 0xF8FF, 0xF900, 0xFAFF, 0xFB00, 0x1FFFF, 0x20000, 0x2A6DF,
    0x2A6E0, 0x2A6FF, 0x2A700, 0x2B73F, 0x2B740, 0x2B81F, 0x2B820, 0x2CEAF, 0x2CEB0, 0x2F7FF, 0x2F800, 0x2FA1F, 0x2FA20,
];

pub fn char_type(c: char) -> u8 {
    match u32::from(c) {
        0x30..=0x39 | 0xFF10..=0xFF19 => 1,
        0x41..=0x5A | 0x61..=0x7A | 0xFF21..=0xFF3A | 0xFF41..=0xFF5A => 2,
        0x3040..=0x3096 => 3,
        0x30A0..=0x30FA | 0x30FC..=0x30FF | 0xFF66..=0xFF9F => 4,
        0x3400..=0x4DBF | 0x4E00..=0x9FFF | 0xF900..=0xFAFF | 0x20000..=0x2A6DF | 0x2A700..=0x2B73F
        | 0x2B740..=0x2B81F | 0x2B820..=0x2CEAF | 0x2F800..=0x2FA1F => 5,
        _ => 6,
    }
}

fn rand_chars(r: &mut Rng, len: usize) -> Vec<char> {
    (0..len).map(|_| ALPHABET[r.below(ALPHABET.len() - 1)]).collect() // no space inside n-grams/words
}

pub fn gen_text(r: &mut Rng, max_len: usize) -> String {
    let n = 1 + r.below(max_len);
    let mut t: String = (0..n).map(|_| ALPHABET[r.below(ALPHABET.len())]).collect();
    // now and then one character from the EDGES of the character classes (the last / first code point of every range of
    // the classification and its outer neighbours): a range end off by one, or a "simplified" range, shows only there
    if r.below(5) == 0 {
        let c = char::from_u32(CLASS_EDGES[r.below(CLASS_EDGES.len())]).unwrap();
        let k = r.below(n);
        t = t.chars().enumerate().map(|(i, x)| if i == k { c } else { x }).collect();
    }
    // now and then a leading byte order mark (an ordinary character for the tokenizer; "helpful" special handling
    // of it desynchronises text and position maps)
    if r.below(8) == 0 {
        t.insert(0, '\u{feff}');
    }
    t
}

/// A text assembled from the model's own strings (n-grams, dictionary words, tag tokens, tag n-grams) and random
/// characters, so that entries and in particular tag n-grams next to tagged tokens actually occur.
pub fn gen_text_from_model(r: &mut Rng, m: &ModelData, max_len: usize) -> String {
    let mut pieces: Vec<String> = vec![];
    pieces.extend(m.char_ngram_model.0.iter().map(|d| d.ngram.clone()));
    pieces.extend(m.dict_model.0.iter().map(|d| d.word.clone()));
    // type n-grams realised by one representative character per type code
    let rep = |t: u8| match t { 1 => '1', 2 => 'a', 3 => 'あ', 4 => 'ア', 5 => '漢', _ => 'é' };
    pieces.extend(m.type_ngram_model.0.iter().map(|d| d.ngram.iter().map(|&t| rep(t)).collect::<String>()));
    for t in &m.tag_models {
        // tag tokens several times: they must be segmented as tokens to be tagged
        pieces.push(t.token.clone());
        pieces.push(t.token.clone());
        pieces.extend(t.char_ngram_model.0.iter().map(|d| d.ngram.clone()));
    }
    let mut out = String::new();
    let target = 1 + r.below(max_len);
    while out.chars().count() < target {
        if !pieces.is_empty() && r.below(3) != 0 {
            out.push_str(&pieces[r.below(pieces.len())]);
        } else {
            out.push(ALPHABET[r.below(ALPHABET.len())]);
        }
    }
    out
}

pub fn gen_model(r: &mut Rng, with_tags: bool) -> ModelData {
    // windows: mostly small, sometimes large (>= 8: entries longer than the fixed length AND longer than the 7-slot padding)
    // ... and now and then one of the extremes of the u8 range (offsets are kept as i16, relative positions as u8)
    let cw = if r.below(4) == 0 { if r.below(6) == 0 { [127u8, 128, 200, 255][r.below(4)] } else { 6 + r.below(6) as u8 } } else { 1 + r.below(5) as u8 };
    let tw = if r.below(5) == 0 { if r.below(6) == 0 { [127u8, 128, 255][r.below(3)] } else { 5 + r.below(6) as u8 } } else { 1 + r.below(4) as u8 }; // cached (<=3) and uncached type scorer
    // character n-grams: random + suffixes of earlier ones (suffix chains must be merged by the predictor)
    let mut cngrams: Vec<Vec<char>> = vec![];
    let n_c = 1 + r.below(6);
    while cngrams.len() < n_c {
        let max_l = (2 * cw as usize).min(4);
        let g = if !cngrams.is_empty() && r.below(3) == 0 {
            let base = cngrams[r.below(cngrams.len())].clone();
            let k = r.below(base.len());
            base[k..].to_vec()
        } else {
            { let l = 1 + r.below(max_l); rand_chars(r, l) }
        };
        if !g.is_empty() && !cngrams.contains(&g) {
            cngrams.push(g);
        }
    }
    // every third model: ALL proper suffixes of one n-gram of length 3..4 (a complete suffix chain of three or four entries
    // -- the weight mergers walk such chains link by link)
    if r.below(3) == 0 && cw >= 2 {
        let l = 3 + r.below(2);
        let g = rand_chars(r, l);
        for k in 0..l { let sfx = g[k..].to_vec(); if !cngrams.contains(&sfx) { cngrams.push(sfx); } }
    }
    let mut char_ngram_model = NgramModel(
        cngrams.iter().map(|g| NgramData {
            ngram: g.iter().collect::<String>(),
            weights: (0..(2 * cw as usize + 1 - g.len())).map(|_| r.weight()).collect(),
        }).collect::<Vec<_>>(),
    );
    // now and then an entry whose weights exactly CANCEL those of its own suffix entry (the sum over both occurrences is
    // zero at every boundary): "optimisations" that drop all-zero merged entries then resurrect the suffix's weights
    if r.below(4) == 0 {
        let k = r.below(cngrams.len());
        let a = cngrams[k].clone();
        let mut b = rand_chars(r, 1);
        b.extend(a.iter());
        if b.len() <= 2 * cw as usize && !cngrams.contains(&b) {
            let n = char_ngram_model.0[k].weights.len();
            char_ngram_model.0[k].weights[n - 1] = 0;
            let wb: Vec<i32> = char_ngram_model.0[k].weights[..n - 1].iter().map(|x| -x).collect();
            char_ngram_model.0.push(NgramData { ngram: b.iter().collect::<String>(), weights: wb });
            cngrams.push(b);
        }
    }
    let mut tngrams: Vec<Vec<u8>> = vec![];
    let n_t = 1 + r.below(5);
    while tngrams.len() < n_t {
        let max_l = (2 * tw as usize).min(4);
        let g: Vec<u8> = if !tngrams.is_empty() && r.below(3) == 0 {
            let base = tngrams[r.below(tngrams.len())].clone();
            let k = r.below(base.len());
            base[k..].to_vec()
        } else {
            (0..1 + r.below(max_l)).map(|_| 1 + r.below(6) as u8).collect()
        };
        if !g.is_empty() && !tngrams.contains(&g) {
            tngrams.push(g);
        }
    }
    if r.below(3) == 0 && tw >= 2 {
        let l = 3 + r.below(2);
        let g: Vec<u8> = (0..l).map(|_| 1 + r.below(6) as u8).collect();
        for k in 0..l { let sfx = g[k..].to_vec(); if !tngrams.contains(&sfx) { tngrams.push(sfx); } }
    }
    let type_ngram_model = NgramModel(
        tngrams.iter().map(|g| NgramData {
            ngram: g.clone(),
            weights: (0..(2 * tw as usize + 1 - g.len())).map(|_| r.weight()).collect(),
        }).collect(),
    );
    // dictionary: words of 1..4 characters, sometimes one of 9 (Variable layout), sometimes equal to an n-gram
    let mut words: Vec<Vec<char>> = vec![];
    let n_w = r.below(4);
    while words.len() < n_w {
        let w = match r.below(5) {
            0 => cngrams[r.below(cngrams.len())].clone(),
            1 => rand_chars(r, 9),
            _ => { let l = 1 + r.below(4); rand_chars(r, l) },
        };
        if !words.contains(&w) {
            words.push(w);
        }
    }
    let dict_model = DictModel(
        words.iter().map(|w| WordWeightRecord {
            word: w.iter().collect(),
            weights: (0..w.len() + 1).map(|_| r.weight()).collect(),
            comment: String::new(),
        }).collect(),
    );
    let mut tag_models = vec![];
    if with_tags {
        let n_tm = 1 + r.below(3);
        let mut tokens: Vec<Vec<char>> = vec![];
        while tokens.len() < n_tm {
            // now and then a LONG token (21 or 22 equal multi-byte characters: 63 / 66 / 84 / 88 bytes -- on both sides of 64)
            let t = if r.below(12) == 0 { vec![['あ', 'ア', '漢', '\u{2000b}'][r.below(4)]; 21 + r.below(2)] } else { let l = 1 + r.below(2); rand_chars(r, l) };
            if !tokens.contains(&t) {
                tokens.push(t);
            }
        }
        for t in tokens {
            let n_cat = r.below(4);
            // sometimes force exactly 8 (or 9) candidate scores: the boundary between the fixed and the variable layout
            // now and then a token with MANY categories and candidates: more than 255 candidate scores in all (score
            // offsets and class counts leave the range of a byte)
            let big = r.below(25) == 0;
            let shape: Vec<usize> = match if big { 99 } else { r.below(6) } {
                99 => (0..20).map(|c| if c % 5 == 4 { 1 } else { 18 }).collect(), // 16 x 18 = 288 scores: the last blocks start beyond 255
                0 => vec![3, 3, 2],
                1 => vec![8],
                2 => vec![2, 1, 6, 0],
                3 => vec![4, 5],
                _ => (0..n_cat).map(|_| r.below(4)).collect(),
            };
            let tags: Vec<Vec<String>> = shape.iter().enumerate()
                .map(|(c, &n)| (0..n).map(|k| format!("t{c}{k}")).collect())
                .collect();
            let n_scores: usize = tags.iter().filter(|c| c.len() >= 2).map(|c| c.len()).sum();
            let ties = r.below(2) == 0; // small weights => exact ties between candidates
            let mut cg: Vec<TagNgramData<String>> = vec![];
            for _ in 0..r.below(4) {
                // sometimes a proper suffix or a one-character extension of an earlier tag n-gram (suffix chains whose tag
                // weights at the same relative position must be ADDED by the predictor's weight merger)
                let g: String = if !cg.is_empty() && r.below(3) == 0 {
                    let base: Vec<char> = cg[r.below(cg.len())].ngram.chars().collect();
                    if base.len() >= 2 && r.below(2) == 0 { base[1..].iter().collect() } else { let mut x = rand_chars(r, 1); x.extend(base); x.into_iter().collect() }
                } else {
                    { let l = 1 + r.below(2); rand_chars(r, l) }.into_iter().collect()
                };
                if cg.iter().any(|d| d.ngram == g) { continue; }
                let mut ws: Vec<TagWeight> = vec![];
                for rel in 0..=cw {
                    if r.below(2) == 0 {
                        ws.push(TagWeight { rel_position: rel, weights: (0..n_scores).map(|_| if ties { r.small_weight() } else { r.weight() }).collect() });
                    }
                }
                // the file format does not order the entries of one n-gram by relative position: sometimes reversed
                if r.below(3) == 0 { ws.reverse(); }
                cg.push(TagNgramData { ngram: g, weights: ws });
            }
            let mut tg: Vec<TagNgramData<Vec<u8>>> = vec![];
            for _ in 0..r.below(3) {
                let g: Vec<u8> = if !tg.is_empty() && r.below(3) == 0 {
                    let base = tg[r.below(tg.len())].ngram.clone();
                    if base.len() >= 2 && r.below(2) == 0 { base[1..].to_vec() } else { let mut x = vec![1 + r.below(6) as u8]; x.extend(base); x }
                } else {
                    (0..1 + r.below(2)).map(|_| 1 + r.below(6) as u8).collect()
                };
                if tg.iter().any(|d| d.ngram == g) { continue; }
                let mut ws: Vec<TagWeight> = vec![];
                for rel in 0..=tw {
                    if r.below(2) == 0 {
                        ws.push(TagWeight { rel_position: rel, weights: (0..n_scores).map(|_| if ties { r.small_weight() } else { r.weight() }).collect() });
                    }
                }
                if r.below(3) == 0 { ws.reverse(); }
                tg.push(TagNgramData { ngram: g, weights: ws });
            }
            tag_models.push(TagModel {
                token: t.iter().collect(),
                tags,
                char_ngram_model: TagNgramModel(cg),
                type_ngram_model: TagNgramModel(tg),
                bias: (0..n_scores).map(|_| if ties { r.small_weight() } else { r.weight() }).collect(),
            });
        }
    }
    ModelData {
        char_ngram_model, type_ngram_model, dict_model,
        bias: r.weight(), char_window_size: cw, type_window_size: tw, tag_models,
    }
}

/// The pointwise linear model as the property states it: bias plus, for every occurrence of every
/// entry, the weight the entry assigns to the boundary's position relative to the occurrence.
pub fn reference_scores(m: &ModelData, text: &str) -> Vec<i64> {
    let chars: Vec<char> = text.chars().collect();
    let types: Vec<u8> = chars.iter().map(|&c| char_type(c)).collect();
    let n = chars.len();
    let mut y = vec![m.bias as i64; n.saturating_sub(1)];
    let mut add = |end: usize, offset: i64, w: &[i32]| {
        // entry ending after character `end-1`; w[k] applies to boundary end - 1 + offset + k  (boundary b sits between chars b and b+1)
        for (k, &x) in w.iter().enumerate() {
            let b = end as i64 - 1 + offset + k as i64;
            if b >= 0 && (b as usize) < y.len() {
                y[b as usize] += x as i64;
            }
        }
    };
    for d in &m.char_ngram_model.0 {
        let g: Vec<char> = d.ngram.chars().collect();
        for s in 0..n {
            if s + g.len() <= n && chars[s..s + g.len()] == g[..] {
                add(s + g.len(), -(m.char_window_size as i64), &d.weights);
            }
        }
    }
    for d in &m.dict_model.0 {
        let g: Vec<char> = d.word.chars().collect();
        for s in 0..n {
            if s + g.len() <= n && chars[s..s + g.len()] == g[..] {
                add(s + g.len(), -(g.len() as i64), &d.weights);
            }
        }
    }
    for d in &m.type_ngram_model.0 {
        let g = &d.ngram;
        for s in 0..n {
            if s + g.len() <= n && types[s..s + g.len()] == g[..] {
                add(s + g.len(), -(m.type_window_size as i64), &d.weights);
            }
        }
    }
    y
}

/// Reference tags for a fully segmented sentence (boundaries: true = word boundary).
/// The candidate scores the statement assigns to every token that has a tag model: per token (by its end position) and
/// tag category the candidates with bias + tag n-gram weights; a category with a single candidate reports that candidate
/// with score 0 (it has no score slot), a category without candidates reports nothing.
pub fn reference_tag_scores(m: &ModelData, text: &str, wb: &[bool]) -> Vec<(usize, Vec<Vec<(String, i64)>>)> {
    let chars: Vec<char> = text.chars().collect();
    let types: Vec<u8> = chars.iter().map(|&c| char_type(c)).collect();
    let n = chars.len();
    let mut out = vec![];
    let mut start = 0;
    for e in 1..=n {
        if e == n || wb[e - 1] {
            let surface: String = chars[start..e].iter().collect();
            if let Some(tm) = m.tag_models.iter().find(|t| t.token == surface) {
                let pos = e - 1;
                let mut scores: Vec<i64> = tm.bias.iter().map(|&b| b as i64).collect();
                for d in &tm.char_ngram_model.0 {
                    let g: Vec<char> = d.ngram.chars().collect();
                    for w in &d.weights {
                        let endc = pos + w.rel_position as usize;
                        if endc < n && endc + 1 >= g.len() && chars[endc + 1 - g.len()..=endc] == g[..] {
                            for (s, x) in scores.iter_mut().zip(&w.weights) { *s += *x as i64; }
                        }
                    }
                }
                for d in &tm.type_ngram_model.0 {
                    let g = &d.ngram;
                    for w in &d.weights {
                        let endc = pos + w.rel_position as usize;
                        if endc < n && endc + 1 >= g.len() && types[endc + 1 - g.len()..=endc] == g[..] {
                            for (s, x) in scores.iter_mut().zip(&w.weights) { *s += *x as i64; }
                        }
                    }
                }
                let mut off = 0;
                let mut per_cat = vec![];
                for cands in &tm.tags {
                    if cands.len() >= 2 {
                        per_cat.push(cands.iter().enumerate().map(|(i, c)| (c.clone(), scores[off + i])).collect());
                        off += cands.len();
                    } else {
                        per_cat.push(cands.iter().map(|c| (c.clone(), 0i64)).collect());
                    }
                }
                out.push((e, per_cat));
            }
            start = e;
        }
    }
    out
}

pub fn reference_tags(m: &ModelData, text: &str, wb: &[bool]) -> (usize, Vec<Option<String>>) {
    let chars: Vec<char> = text.chars().collect();
    let types: Vec<u8> = chars.iter().map(|&c| char_type(c)).collect();
    let n = chars.len();
    let n_tags = m.tag_models.iter().map(|t| t.tags.len()).max().unwrap_or(0);
    let mut out: Vec<Option<String>> = vec![None; n * n_tags];
    if n_tags == 0 {
        return (0, vec![]);
    }
    let mut start = 0;
    for e in 1..=n {
        if e == n || wb[e - 1] {
            let surface: String = chars[start..e].iter().collect();
            if let Some(tm) = m.tag_models.iter().find(|t| t.token == surface) {
                let pos = e - 1;
                let mut scores: Vec<i64> = tm.bias.iter().map(|&b| b as i64).collect();
                for d in &tm.char_ngram_model.0 {
                    let g: Vec<char> = d.ngram.chars().collect();
                    for w in &d.weights {
                        let endc = pos + w.rel_position as usize; // n-gram's last character
                        if endc < n && endc + 1 >= g.len() && chars[endc + 1 - g.len()..=endc] == g[..] {
                            for (s, x) in scores.iter_mut().zip(&w.weights) { *s += *x as i64; }
                        }
                    }
                }
                for d in &tm.type_ngram_model.0 {
                    let g = &d.ngram;
                    for w in &d.weights {
                        let endc = pos + w.rel_position as usize;
                        if endc < n && endc + 1 >= g.len() && types[endc + 1 - g.len()..=endc] == g[..] {
                            for (s, x) in scores.iter_mut().zip(&w.weights) { *s += *x as i64; }
                        }
                    }
                }
                let mut off = 0;
                for (c, cands) in tm.tags.iter().enumerate() {
                    let slot = pos * n_tags + c;
                    if cands.len() >= 2 {
                        let sl = &scores[off..off + cands.len()];
                        let mut idx = 0;
                        for (i, &s) in sl.iter().enumerate() { if s > sl[idx] { idx = i; } }
                        out[slot] = Some(cands[idx].clone());
                        off += cands.len();
                    } else if cands.len() == 1 {
                        out[slot] = Some(cands[0].clone());
                    }
                }
            }
            start = e;
        }
    }
    (n_tags, out)
}
