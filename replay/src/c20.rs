//! C20: the command-line tools against the library, line by line (BOUNDED stand-in; process-level behaviour of main()).
//! The driver builds target_cli/release/{predict,evaluate} from /repo and passes their directory in VP_CLI_DIR.
use std::io::Write;
use std::process::{Command, Stdio};
use vaporetto::{CharacterBoundary as B, CharacterType, Model, Predictor, Sentence};
use vaporetto_rules::{
    sentence_filters::{ConcatGraphemeClustersFilter, KyteaWsConstFilter},
    string_filters::KyteaFullwidthFilter,
    SentenceFilter, StringFilter,
};

const LINES: [&str; 21] = [
    "まぁ社長は火星猫だ", "", "これは12個のABCです", "a b/c\\d", "火星に行きました。", " ", "ｶﾞｷﾞ half-width ｱ", "１２３４５円", "x", "e\u{301}e\u{301}猫",
    "a\0b", "//", "\\", "まぁ良いだろう 火星猫",
    // half-width characters whose full-width form has the same byte length; runs a character-type filter merges across
    // words the model knows; digits next to kanji
    "｢火星猫｣､まぁ良いだろう｡", "ラ－メン", "火星猫", "12火星猫だ", "abc｢火星猫｣",
    // digits and kanji side by side with a predicted boundary between them (two filters of different types must not join them)
    "火星4猫5だ6", "火星に12行きました",
];
// (the last: two character types that meet in the lines -- digits next to kanji; each type is joined with ITSELF only)
const WSCONST: [&[&str]; 5] = [&[], &["D"], &["G"], &["K", "R"], &["D", "K"]];

fn work_dir() -> std::path::PathBuf {
    let d = std::path::Path::new(env!("CARGO_MANIFEST_DIR")).join("../out/c20");
    std::fs::create_dir_all(&d).unwrap();
    d
}

fn model_bytes() -> Vec<u8> {
    std::fs::read(concat!(env!("CARGO_MANIFEST_DIR"), "/../../repo/resources/model.bin")).or_else(|_| std::fs::read("/repo/resources/model.bin")).unwrap()
}

/// the shipped model with its tag models removed (a predictor built from it has no tag categories at all)
fn tagless_model_bytes() -> Vec<u8> {
    let mut md = crate::gen::ModelData::from_bytes(&model_bytes()).unwrap();
    md.tag_models.clear();
    md.to_bytes()
}

fn write_model() -> std::path::PathBuf { write_model_of(false) }

fn write_model_of(tagless: bool) -> std::path::PathBuf {
    let p = work_dir().join(if tagless { "model_tagless.zst" } else { "model.zst" });
    let f = std::fs::File::create(&p).unwrap();
    let mut e = zstd::Encoder::new(f, 3).unwrap();
    e.write_all(&if tagless { tagless_model_bytes() } else { model_bytes() }).unwrap();
    e.finish().unwrap();
    p
}

fn filters(ws: &[&str]) -> Vec<Box<dyn SentenceFilter>> {
    ws.iter()
        .map(|w| -> Box<dyn SentenceFilter> {
            match *w {
                "G" => Box::new(ConcatGraphemeClustersFilter),
                "D" => Box::new(KyteaWsConstFilter::new(CharacterType::Digit)),
                "R" => Box::new(KyteaWsConstFilter::new(CharacterType::Roman)),
                "K" => Box::new(KyteaWsConstFilter::new(CharacterType::Kanji)),
                _ => unreachable!(),
            }
        })
        .collect()
}

/// the library pipeline of the statement for one line; None = empty or rejected input
fn pipeline<'p>(p: &'p Predictor, line: &str, no_norm: bool, tags: bool, ws: &[&str]) -> Option<Sentence<'static, 'p>> {
    let pre = if no_norm { line.to_string() } else { KyteaFullwidthFilter.filter(line) };
    let mut s = Sentence::from_raw(pre).ok()?;
    p.predict(&mut s);
    for f in filters(ws) {
        f.filter(&mut s);
    }
    if tags {
        s.fill_tags();
    }
    Some(s)
}

/// expected stdout of `predict`: per input line the tokenised line (surfaces of the ORIGINAL line, boundaries and tags of the
/// pipeline), then the optional score block, then the optional tag-score block -- the same layout in every mode
fn expected_predict(no_norm: bool, tags: bool, scores: bool, tag_scores: bool, ws: &[&str]) -> String {
    // tag scores exist only when tags are predicted
    let tag_scores = tag_scores && tags;
    let (m, _) = Model::read_slice(&model_bytes()).unwrap();
    let mut p = Predictor::new(m, tags).unwrap();
    if tag_scores {
        p.store_tag_scores(true);
    }
    let mut out = String::new();
    for line in LINES {
        match pipeline(&p, line, no_norm, tags, ws) {
            None => out.push('\n'),
            Some(s) => {
                let mut orig = Sentence::from_raw(line.to_string()).unwrap();
                orig.reset_tags(s.n_tags());
                orig.boundaries_mut().copy_from_slice(s.boundaries());
                orig.tags_mut().clone_from_slice(s.tags());
                let mut buf = String::new();
                orig.write_tokenized_text(&mut buf);
                out.push_str(&buf);
                out.push('\n');
                if scores {
                    let cs: Vec<char> = s.as_raw_text().chars().collect();
                    for (i, sc) in s.boundary_scores().iter().enumerate() {
                        out.push_str(&format!("{}:{}{} {}\n", i, cs[i], cs[i + 1], sc));
                    }
                    out.push('\n');
                }
                if tag_scores {
                    for t in s.iter_tokens() {
                        out.push_str(t.surface());
                        for cands in t.tag_candidates() {
                            out.push('\t');
                            out.push_str(&cands.iter().map(|(tag, sc)| format!("{}:{}", tag, sc)).collect::<Vec<_>>().join(","));
                        }
                        out.push('\n');
                    }
                    out.push('\n');
                }
            }
        }
    }
    out
}

fn run(bin: &str, args: &[String], stdin: &str) -> Result<String, String> {
    let dir = std::env::var("VP_CLI_DIR").map_err(|_| "VP_CLI_DIR not set".to_string())?;
    let mut c = Command::new(std::path::Path::new(&dir).join(bin))
        .args(args)
        .stdin(Stdio::piped())
        .stdout(Stdio::piped())
        .stderr(Stdio::piped())
        .spawn()
        .map_err(|e| format!("cannot start {}: {}", bin, e))?;
    c.stdin.take().unwrap().write_all(stdin.as_bytes()).map_err(|e| e.to_string())?;
    let o = c.wait_with_output().map_err(|e| e.to_string())?;
    if !o.status.success() {
        return Err(format!("{} exited with {:?}: {}", bin, o.status.code(), String::from_utf8_lossy(&o.stderr).lines().last().unwrap_or("")));
    }
    String::from_utf8(o.stdout).map_err(|_| "stdout is not UTF-8".to_string())
}

fn first_diff(a: &str, b: &str) -> String {
    let (la, lb): (Vec<&str>, Vec<&str>) = (a.split('\n').collect(), b.split('\n').collect());
    for i in 0..la.len().max(lb.len()) {
        if la.get(i) != lb.get(i) {
            return format!("output line {}: expected {:?}, tool printed {:?}", i + 1, la.get(i), lb.get(i));
        }
    }
    "no difference".into()
}

fn check_predict(code: usize) -> Option<String> {
    let (no_norm, tags, scores, tag_scores, w) = (code & 1 != 0, code & 2 != 0, code & 4 != 0, code & 8 != 0, (code >> 4) % 5);
    let model = write_model();
    let mut args = vec!["--model".to_string(), model.to_string_lossy().to_string()];
    if no_norm { args.push("--no-norm".into()); }
    if tags { args.push("--predict-tags".into()); }
    if scores { args.push("--scores".into()); }
    if tag_scores { args.push("--tag-scores".into()); }
    for x in WSCONST[w] { args.push("--wsconst".into()); args.push(x.to_string()); }
    let stdin: String = LINES.iter().map(|l| format!("{}\n", l)).collect();
    let want = expected_predict(no_norm, tags, scores, tag_scores, WSCONST[w]);
    match run("predict", &args, &stdin) {
        Err(e) => return Some(format!("predict {:?}: {}", &args[2..], e)),
        Ok(got) => {
            if got != want {
                return Some(format!("predict {:?}: {}", &args[2..], first_diff(&want, &got)));
            }
        }
    }
    // the same lines with CR LF line ends and without a newline after the last line: the same output, line by line
    // (input lines that themselves contain CR or LF are left out of this variant)
    if code % 4 == 0 {
        let stdin2: String = LINES.iter().map(|l| l.to_string()).collect::<Vec<_>>().join("\r\n");
        match run("predict", &args, &stdin2) {
            Err(e) => return Some(format!("predict {:?} (CR LF input, no final newline): {}", &args[2..], e)),
            Ok(got) => {
                if got != want {
                    return Some(format!("predict {:?} (CR LF input, no final newline): {}", &args[2..], first_diff(&want, &got)));
                }
            }
        }
    }
    None
}

// ---- evaluate ----
// (a sentence whose LAST word the model gets wrong is followed by sentences whose first word it gets right, and the other way round)
const GOLD: [&str; 11] = ["まぁ/名詞/マー 社長/名詞/シャチョー は/助詞/ワ 火星/名詞/カセー 猫/名詞/ネコ だ/助動詞/ダ", "", "火星 猫だ", "まぁ 良い だろう", "火星 に 行き まし た", "１２ 個 の ABC", "x", "まぁ良い だろう", "火星 猫 だ",
    // white space that BELONGS to the reference sentence: an ideographic space at the start of the first token, an escaped
    // space at the end of the last one
    "\u{3000}火星 猫 だ", "まぁ 良い\\ "];

/// the reference lines: GOLD plus (long = true) one line of 190,000 characters -- a document without line
/// breaks; every one of its four per-line counts exceeds 16 bits
fn gold_lines(long: bool) -> Vec<String> {
    let mut v: Vec<String> = GOLD.iter().map(|l| l.to_string()).collect();
    if long {
        v.push(vec!["火星 猫だ まぁ 良い だろう 火星 に 行き まし た"; 10000].join(" ")); // 190,000 characters, 100,000 word boundaries
    }
    v
}

fn expected_evaluate(no_norm: bool, tags: bool, word: bool, ws: &[&str], tagless: bool, long: bool) -> String {
    let (m, _) = Model::read_slice(&if tagless { tagless_model_bytes() } else { model_bytes() }).unwrap();
    let p = Predictor::new(m, tags).unwrap();
    let (mut tp, mut tn, mut fp, mut fnn) = (0i32, 0i32, 0i32, 0i32);
    let (mut n_sys, mut n_ref, mut n_cor) = (0i32, 0i32, 0i32);
    for line in gold_lines(long) {
        if line.is_empty() {
            continue;
        }
        let gold = Sentence::from_tokenized(line.as_str()).unwrap();
        let sys = pipeline(&p, gold.as_raw_text(), no_norm, tags, ws).unwrap();
        let n = gold.boundaries().len() + 1;
        // character level: every boundary is a binary decision
        for (r, h) in gold.boundaries().iter().zip(sys.boundaries()) {
            match (r == h, *h == B::WordBoundary) {
                (true, true) => tp += 1,
                (true, false) => tn += 1,
                (false, true) => fp += 1,
                (false, false) => fnn += 1,
            }
        }
        // word level (Nagata 1994): a system word is correct iff its two ends are reference boundaries, no boundary of
        // either side falls inside it, and its tags equal the reference word's tags
        let ends = |s: &Sentence| -> Vec<usize> { (0..n).filter(|&i| i + 1 == n || s.boundaries()[i] == B::WordBoundary).collect() };
        let row = |s: &Sentence, i: usize| -> Vec<Option<String>> { s.tags()[i * s.n_tags()..(i + 1) * s.n_tags()].iter().map(|t| t.as_ref().map(|x| x.to_string())).collect() };
        let (re, se) = (ends(&gold), ends(&sys));
        n_ref += re.len() as i32;
        n_sys += se.len() as i32;
        let mut start = 0usize;
        for &e in &se {
            let ref_has_start = start == 0 || re.contains(&(start - 1));
            let ref_has_end = re.contains(&e);
            let ref_inside = re.iter().any(|&x| x + 1 > start && x < e);
            if ref_has_start && ref_has_end && !ref_inside && row(&gold, e) == row(&sys, e) {
                n_cor += 1;
            }
            start = e + 1;
        }
    }
    if word {
        let precision = f64::from(n_cor) / f64::from(n_sys);
        let recall = f64::from(n_cor) / f64::from(n_ref);
        let f1 = 2. * precision * recall / (precision + recall);
        format!("Precision: {precision}\nRecall: {recall}\nF1: {f1}\n")
    } else {
        let precision = f64::from(tp) / f64::from(tp + fp);
        let recall = f64::from(tp) / f64::from(tp + fnn);
        let f1 = 2. * precision * recall / (precision + recall);
        format!("Precision: {precision}\nRecall: {recall}\nF1: {f1}\nTP: {tp}, TN: {tn}, FP: {fp}, FN: {fnn}\n")
    }
}

fn check_evaluate(code: usize) -> Option<String> {
    // bit 5: the model WITHOUT tag models (reference tags must never be taken for predicted ones, whatever the flags);
    // bit 6: the reference additionally holds one line of 190,000 characters
    let (no_norm, tags, word, w, tagless, long) = (code & 1 != 0, code & 2 != 0, code & 4 != 0, (code >> 3) & 3, code & 32 != 0, code & 64 != 0);
    let model = write_model_of(tagless);
    let mut args = vec!["--model".to_string(), model.to_string_lossy().to_string(), "--metric".into(), if word { "word".into() } else { "char".into() }];
    if no_norm { args.push("--no-norm".into()); }
    if tags { args.push("--predict-tags".into()); }
    for x in WSCONST[w] { args.push("--wsconst".into()); args.push(x.to_string()); }
    let stdin: String = gold_lines(long).iter().map(|l| format!("{}\n", l)).collect();
    let want = expected_evaluate(no_norm, tags, word, WSCONST[w], tagless, long);
    match run("evaluate", &args, &stdin) {
        Err(e) => Some(format!("evaluate {:?}: {}", &args[2..], e)),
        Ok(got) => {
            if got != want {
                Some(format!("evaluate {:?}: {}", &args[2..], first_diff(&want, &got)))
            } else {
                None
            }
        }
    }
}

fn check(kind: &str, code: usize) -> Option<String> {
    let arg = format!("{}:{}", kind, code);
    crate::mark(&arg);
    let k = kind.to_string();
    let r = match std::panic::catch_unwind(move || if k == "p" { check_predict(code) } else { check_evaluate(code) }) {
        Ok(r) => r,
        Err(_) => Some("panic in the reference pipeline".to_string()),
    };
    r.map(|d| format!("{{\"replay_arg\":{},\"actual\":{}}}", crate::js(&arg), crate::js(&d)))
}

pub fn search() -> Option<String> {
    for code in 0..80 {
        if let Some(d) = check("p", code) {
            return Some(d);
        }
    }
    // all 32 flag combinations on the shipped model, the first 8 (no filter) also on the model without tag models, and
    // 4 of them with the very long reference line
    for code in (0..32).chain(32..40).chain([64, 65, 68, 66 + 32]) {
        if let Some(d) = check("e", code) {
            return Some(d);
        }
    }
    None
}

pub fn replay(input: &str) -> Option<String> {
    let (k, c) = input.split_once(':').unwrap();
    check(k, c.parse().unwrap())
}
