//! Reference of the trainer's boundary features, written from the statement of C10: for every boundary the character
//! n-grams of length 1..N and the type n-grams of length 1..M lying inside the window around the boundary (named with
//! the relative position of their first character), plus one dictionary feature per dictionary-word occurrence touching
//! the boundary (left / inside / right, length bucketed at max_len). Names: `C:<ngram>:<rel>`, `T:<types>:<rel>`,
//! `D:<position>:<length>` (the format of the verification hooks).
use vaporetto::Sentence;

pub fn features(s: &Sentence, cfg: (u8, u8, u8, u8), words: &[&str], max_len: u8) -> Vec<Vec<String>> {
    let (cw, cn, tw, tn) = (cfg.0 as isize, cfg.1 as isize, cfg.2 as isize, cfg.3 as isize);
    let chars: Vec<char> = s.as_raw_text().chars().collect();
    let types = s.char_types();
    let n = chars.len() as isize;
    let mut out = vec![];
    for i in 0..(n - 1).max(0) {
        let mut feats: Vec<String> = vec![];
        for l in 1..=cn {
            for j in 0..n {
                if j >= i + 1 - cw && j + l <= (i + 1 + cw).min(n) {
                    let g: String = chars[j as usize..(j + l) as usize].iter().collect();
                    feats.push(format!("C:{}:{}", g, j - i - 1));
                }
            }
        }
        for l in 1..=tn {
            for j in 0..n {
                if j >= i + 1 - tw && j + l <= (i + 1 + tw).min(n) {
                    feats.push(format!("T:{:?}:{}", &types[j as usize..(j + l) as usize], j - i - 1));
                }
            }
        }
        // the dictionary is a SET of words: a word listed twice still yields one feature per occurrence
        let mut distinct: Vec<&str> = vec![];
        for w in words { if !distinct.contains(w) { distinct.push(*w); } }
        for w in &distinct {
            let wc: Vec<char> = w.chars().collect();
            let wl = wc.len() as isize;
            let mut st = 0;
            while st + wl <= n {
                if chars[st as usize..(st + wl) as usize] == wc[..] {
                    let len = wl.min(max_len as isize);
                    let en = st + wl;
                    if i == st - 1 {
                        feats.push(format!("D:Left:{}", len));
                    } else if st <= i && i < en - 1 {
                        feats.push(format!("D:Inside:{}", len));
                    } else if i == en - 1 {
                        feats.push(format!("D:Right:{}", len));
                    }
                }
                st += 1;
            }
        }
        out.push(feats);
    }
    out
}

/// Reference of the tag trainer's features for the token [s, e) (C12): the n-grams 1..N characters longer than the token
/// that contain it, lie inside the sentence and end 0..=window characters after its end, named with that distance.
pub fn tag_features(sent: &Sentence, s: usize, e: usize, cfg: (u8, u8, u8, u8)) -> Vec<String> {
    let (cw, cn, tw, tn) = (cfg.0 as isize, cfg.1 as isize, cfg.2 as isize, cfg.3 as isize);
    let chars: Vec<char> = sent.as_raw_text().chars().collect();
    let types = sent.char_types();
    let n = chars.len() as isize;
    let (s, e) = (s as isize, e as isize);
    let mut out = vec![];
    for (kind, w, nn) in [('C', cw, cn), ('T', tw, tn)] {
        for extra in 1..=nn {
            let len = (e - s) + extra;
            for i in 0..n {
                let rel = i + len - e;
                if i <= s && i + len >= e && i + len <= n && rel >= 0 && rel <= w {
                    if kind == 'C' {
                        let g: String = chars[i as usize..(i + len) as usize].iter().collect();
                        out.push(format!("C:{}:{}", g, rel));
                    } else {
                        out.push(format!("T:{:?}:{}", &types[i as usize..(i + len) as usize], rel));
                    }
                }
            }
        }
    }
    out
}
