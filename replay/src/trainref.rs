//! Reference of the trainer's boundary features, written from the statement of C10: for every boundary the character
//! n-grams of length 1..N and the type n-grams of length 1..M lying inside the window around the boundary (named with
//! the relative position of their first character), plus one dictionary feature per dictionary-word occurrence touching
//! the boundary (left / inside / right, length bucketed at max_len). Names: `C:<ngram>:<rel>`, `T:<types>:<rel>`,
//! `D:<position>:<length>` (the format of the verification hooks).
use vaporetto::Sentence;

pub fn features(s: &Sentence, cfg: (u8, u8, u8, u8), words: &[&str], max_len: u8) -> Vec<Vec<String>> {
    let (cw, cn, tw, tn) = (cfg.0 as isize, cfg.1 as isize, cfg.2 as isize, cfg.3 as isize);
    let chars: Vec<char> = s.as_raw_text().chars().collect();
    let types = s.char_types();
    let n = chars.len() as isize;
    let mut out = vec![];
    for i in 0..(n - 1).max(0) {
        let mut feats: Vec<String> = vec![];
        for l in 1..=cn {
            for j in 0..n {
                if j >= i + 1 - cw && j + l <= (i + 1 + cw).min(n) {
                    let g: String = chars[j as usize..(j + l) as usize].iter().collect();
                    feats.push(format!("C:{}:{}", g, j - i - 1));
                }
            }
        }
        for l in 1..=tn {
            for j in 0..n {
                if j >= i + 1 - tw && j + l <= (i + 1 + tw).min(n) {
                    feats.push(format!("T:{:?}:{}", &types[j as usize..(j + l) as usize], j - i - 1));
                }
            }
        }
        for w in words {
            let wc: Vec<char> = w.chars().collect();
            let wl = wc.len() as isize;
            let mut st = 0;
            while st + wl <= n {
                if chars[st as usize..(st + wl) as usize] == wc[..] {
                    let len = wl.min(max_len as isize);
                    let en = st + wl;
                    if i == st - 1 {
                        feats.push(format!("D:Left:{}", len));
                    } else if st <= i && i < en - 1 {
                        feats.push(format!("D:Inside:{}", len));
                    } else if i == en - 1 {
                        feats.push(format!("D:Right:{}", len));
                    }
                }
                st += 1;
            }
        }
        out.push(feats);
    }
    out
}
