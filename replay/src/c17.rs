//! C17 (BOUNDED stand-in): the KyTea model reader and converter on resources/kytea-model.bin.
//! Every truncation of the file must be rejected with an error (no panic, no abort); the whole file must convert, the
//! converted model must serialise / re-read, keep the file's window sizes, and segment the documented sentence as documented.
use crate::gen::ModelData;
use vaporetto::{KyteaModel, Model, Predictor, Sentence};

fn file() -> Vec<u8> {
    std::fs::read("/repo/resources/kytea-model.bin").unwrap()
}

fn check_prefix(n: usize) -> Option<String> {
    let arg = format!("trunc:{}", n);
    crate::mark(&arg);
    let bytes = file();
    let r = std::panic::catch_unwind(move || {
        let prefix = &bytes[..n];
        match KyteaModel::read(prefix) {
            Err(_) => None,
            Ok(_) => Some(format!("the file truncated to {} of {} bytes is accepted", n, bytes.len())),
        }
    });
    let r = match r {
        Ok(r) => r,
        Err(_) => Some(format!("KyteaModel::read panics on the file truncated to {} bytes", n)),
    };
    r.map(|d| format!("{{\"replay_arg\":{},\"actual\":{}}}", crate::js(&arg), crate::js(&d)))
}

fn check_full() -> Option<String> {
    crate::mark("full");
    let r = std::panic::catch_unwind(|| {
        let bytes = file();
        let km = match KyteaModel::read(bytes.as_slice()) {
            Ok(m) => m,
            Err(e) => return Some(format!("the complete file is rejected: {}", e)),
        };
        let model = match Model::try_from(km) {
            Ok(m) => m,
            Err(e) => return Some(format!("conversion fails: {}", e)),
        };
        let out = match model.to_vec() {
            Ok(b) => b,
            Err(e) => return Some(format!("converted model does not serialise: {}", e)),
        };
        // known answer: the converted model of this file, recorded from the pinned tree after reading the converter against
        // the statement (a regression oracle for this one file, not an independent specification of the KyTea format)
        let golden = concat!(env!("CARGO_MANIFEST_DIR"), "/golden/kytea_converted.bin");
        if std::env::var("VP_WRITE_GOLDEN").is_ok() {
            std::fs::write(golden, &out).unwrap();
        }
        match std::fs::read(golden) {
            Ok(g) => {
                if g != out {
                    let at = g.iter().zip(out.iter()).position(|(a, b)| a != b).unwrap_or(g.len().min(out.len()));
                    return Some(format!("converted model differs from the recorded known answer at byte {} ({} vs {} bytes)", at, out.len(), g.len()));
                }
            }
            Err(_) => return Some("known-answer file replay/golden/kytea_converted.bin is missing".into()),
        }
        let md = match ModelData::from_bytes(&out) {
            Some(m) => m,
            None => return Some("converted model bytes do not decode".into()),
        };
        // structure: every vector covers its own window; type codes are vaporetto's (1..=6), not KyTea's letters
        for d in &md.char_ngram_model.0 {
            if d.weights.len() + d.ngram.chars().count() != 2 * md.char_window_size as usize + 1 {
                return Some(format!("character n-gram {:?}: {} weights for window {}", d.ngram, d.weights.len(), md.char_window_size));
            }
        }
        for d in &md.type_ngram_model.0 {
            if d.weights.len() + d.ngram.len() != 2 * md.type_window_size as usize + 1 {
                return Some(format!("type n-gram {:?}: {} weights for window {}", d.ngram, d.weights.len(), md.type_window_size));
            }
            if d.ngram.iter().any(|t| !(1..=6).contains(t)) {
                return Some(format!("type n-gram {:?} is not made of type codes 1..=6", d.ngram));
            }
        }
        for d in &md.dict_model.0 {
            if d.weights.len() != d.word.chars().count() + 1 {
                return Some(format!("dictionary word {:?}: {} weights", d.word, d.weights.len()));
            }
        }
        if !md.tag_models.is_empty() {
            return Some("converted model has tag models".into());
        }
        let (m, rest) = match Model::read_slice(&out) {
            Ok(x) => x,
            Err(e) => return Some(format!("converted model is not re-read: {}", e)),
        };
        if !rest.is_empty() {
            return Some("bytes left over".into());
        }
        let p = match Predictor::new(m, false) {
            Ok(p) => p,
            Err(e) => return Some(format!("Predictor::new rejects the converted model: {}", e)),
        };
        // documented behaviour of this model (doc test of KyteaModel::read)
        let mut s = Sentence::from_raw("まぁ社長は火星猫だ").unwrap();
        p.predict(&mut s);
        let mut buf = String::new();
        s.write_tokenized_text(&mut buf);
        if buf != "まぁ 社長 は 火星 猫 だ" {
            return Some(format!("converted model segments the documented sentence as {:?}", buf));
        }
        // the brute-force linear model over the decoded data agrees with the predictor (weights are used as stored)
        for text in ["まぁ社長は火星猫だ", "火星に行きました", "abc123", "猫"] {
            let mut s = Sentence::from_raw(text).unwrap();
            p.predict(&mut s);
            let want = crate::gen::reference_scores(&md, text);
            let got: Vec<i64> = s.boundary_scores().iter().map(|x| *x as i64).collect();
            if want != got {
                return Some(format!("scores of the converted model on {:?}: predictor {:?}, linear model over the decoded weights {:?}", text, got, want));
            }
        }
        None
    });
    let r = match r {
        Ok(r) => r,
        Err(_) => Some("panic while reading / converting / using the complete file".to_string()),
    };
    r.map(|d| format!("{{\"replay_arg\":\"full\",\"actual\":{}}}", crate::js(&d)))
}

/// number of bytes of the file the reader actually consumes (KyTea writes further sections the converter never reads)
fn consumed() -> usize {
    let bytes = file();
    let mut rdr: &[u8] = bytes.as_slice();
    let _ = KyteaModel::read(&mut rdr);
    bytes.len() - rdr.len()
}

pub fn search() -> Option<String> {
    if let Some(d) = check_full() {
        return Some(d);
    }
    // every truncation inside the part the reader consumes
    let n = consumed();
    println!("STATS {{\"nontrivial\":{},\"rule\":\"the complete file (read, convert, decode, structure, documented segmentation, scores against the brute-force linear model) plus every proper prefix of the {} bytes the reader consumes\"}}", n + 1, n);
    for k in 0..n {
        if let Some(d) = check_prefix(k) {
            return Some(d);
        }
    }
    None
}

pub fn replay(input: &str) -> Option<String> {
    if input == "full" {
        return check_full();
    }
    check_prefix(input.strip_prefix("trunc:").unwrap().parse().unwrap())
}
