//! C17 (BOUNDED stand-in): the KyTea model reader and converter on resources/kytea-model.bin.
//! Every truncation of the file must be rejected with an error (no panic, no abort); the whole file must convert, the
//! converted model must serialise / re-read, keep the file's window sizes, and segment the documented sentence as documented.
use crate::gen::ModelData;
use vaporetto::{KyteaModel, Model, Predictor, Sentence};

fn file() -> Vec<u8> {
    std::fs::read("/repo/resources/kytea-model.bin").unwrap()
}

fn check_prefix(n: usize) -> Option<String> {
    let arg = format!("trunc:{}", n);
    crate::mark(&arg);
    let bytes = file();
    let r = std::panic::catch_unwind(move || {
        let prefix = &bytes[..n];
        match KyteaModel::read(prefix) {
            Err(_) => None,
            Ok(_) => Some(format!("the file truncated to {} of {} bytes is accepted", n, bytes.len())),
        }
    });
    let r = match r {
        Ok(r) => r,
        Err(_) => Some(format!("KyteaModel::read panics on the file truncated to {} bytes", n)),
    };
    r.map(|d| format!("{{\"replay_arg\":{},\"actual\":{}}}", crate::js(&arg), crate::js(&d)))
}

fn check_full() -> Option<String> {
    crate::mark("full");
    let r = std::panic::catch_unwind(|| {
        let bytes = file();
        let km = match KyteaModel::read(bytes.as_slice()) {
            Ok(m) => m,
            Err(e) => return Some(format!("the complete file is rejected: {}", e)),
        };
        let model = match Model::try_from(km) {
            Ok(m) => m,
            Err(e) => return Some(format!("conversion fails: {}", e)),
        };
        let out = match model.to_vec() {
            Ok(b) => b,
            Err(e) => return Some(format!("converted model does not serialise: {}", e)),
        };
        // known answer: the converted model of this file, recorded from the pinned tree after reading the converter against
        // the statement (a regression oracle for this one file, not an independent specification of the KyTea format)
        let golden = concat!(env!("CARGO_MANIFEST_DIR"), "/golden/kytea_converted.bin");
        if std::env::var("VP_WRITE_GOLDEN").is_ok() {
            std::fs::write(golden, &out).unwrap();
        }
        match std::fs::read(golden) {
            Ok(g) => {
                // compared as CONTENT (the statement fixes which entries the model contains and their weights, not the order
                // in which the model lists them): sorted n-gram / word lists, bias, windows
                let content = |b: &[u8]| ModelData::from_bytes(b).map(|m| {
                    let mut c: Vec<(String, Vec<i32>)> = m.char_ngram_model.0.iter().map(|d| (d.ngram.clone(), d.weights.clone())).collect(); c.sort();
                    let mut t: Vec<(Vec<u8>, Vec<i32>)> = m.type_ngram_model.0.iter().map(|d| (d.ngram.clone(), d.weights.clone())).collect(); t.sort();
                    let mut w: Vec<(String, Vec<i32>)> = m.dict_model.0.iter().map(|d| (d.word.clone(), d.weights.clone())).collect(); w.sort();
                    (c, t, w, m.bias, m.char_window_size, m.type_window_size, m.tag_models.len())
                });
                match (content(&g), content(&out)) {
                    (Some(a), Some(b)) => if a != b { return Some(format!("converted model differs in content from the recorded known answer ({} vs {} bytes)", out.len(), g.len())); },
                    _ => return Some("converted model (or the recorded known answer) does not decode".into()),
                }
            }
            Err(_) => return Some("known-answer file replay/golden/kytea_converted.bin is missing".into()),
        }
        let md = match ModelData::from_bytes(&out) {
            Some(m) => m,
            None => return Some("converted model bytes do not decode".into()),
        };
        // structure: every vector covers its own window; type codes are vaporetto's (1..=6), not KyTea's letters
        for d in &md.char_ngram_model.0 {
            if d.weights.len() + d.ngram.chars().count() != 2 * md.char_window_size as usize + 1 {
                return Some(format!("character n-gram {:?}: {} weights for window {}", d.ngram, d.weights.len(), md.char_window_size));
            }
        }
        for d in &md.type_ngram_model.0 {
            if d.weights.len() + d.ngram.len() != 2 * md.type_window_size as usize + 1 {
                return Some(format!("type n-gram {:?}: {} weights for window {}", d.ngram, d.weights.len(), md.type_window_size));
            }
            if d.ngram.iter().any(|t| !(1..=6).contains(t)) {
                return Some(format!("type n-gram {:?} is not made of type codes 1..=6", d.ngram));
            }
        }
        for d in &md.dict_model.0 {
            if d.weights.len() != d.word.chars().count() + 1 {
                return Some(format!("dictionary word {:?}: {} weights", d.word, d.weights.len()));
            }
        }
        if !md.tag_models.is_empty() {
            return Some("converted model has tag models".into());
        }
        let (m, rest) = match Model::read_slice(&out) {
            Ok(x) => x,
            Err(e) => return Some(format!("converted model is not re-read: {}", e)),
        };
        if !rest.is_empty() {
            return Some("bytes left over".into());
        }
        let p = match Predictor::new(m, false) {
            Ok(p) => p,
            Err(e) => return Some(format!("Predictor::new rejects the converted model: {}", e)),
        };
        // documented behaviour of this model (doc test of KyteaModel::read)
        let mut s = Sentence::from_raw("まぁ社長は火星猫だ").unwrap();
        p.predict(&mut s);
        let mut buf = String::new();
        s.write_tokenized_text(&mut buf);
        if buf != "まぁ 社長 は 火星 猫 だ" {
            return Some(format!("converted model segments the documented sentence as {:?}", buf));
        }
        // the brute-force linear model over the decoded data agrees with the predictor (weights are used as stored)
        for text in ["まぁ社長は火星猫だ", "火星に行きました", "abc123", "猫"] {
            let mut s = Sentence::from_raw(text).unwrap();
            p.predict(&mut s);
            let want = crate::gen::reference_scores(&md, text);
            let got: Vec<i64> = s.boundary_scores().iter().map(|x| *x as i64).collect();
            if want != got {
                return Some(format!("scores of the converted model on {:?}: predictor {:?}, linear model over the decoded weights {:?}", text, got, want));
            }
        }
        None
    });
    let r = match r {
        Ok(r) => r,
        Err(_) => Some("panic while reading / converting / using the complete file".to_string()),
    };
    r.map(|d| format!("{{\"replay_arg\":\"full\",\"actual\":{}}}", crate::js(&d)))
}

// ---- synthetic KyTea models (binary format as the reader consumes it), seeded ----
// (a character outside the BMP sits in the MIDDLE of the map: a map kept in 16-bit units would shift every later index)
const CHAR_MAP: &str = "KTHRDOab𠀋cdあい漢ア1x\u{4}";
fn cid(c: char) -> u16 { CHAR_MAP.chars().position(|x| x == c).unwrap() as u16 + 1 }
fn put_u32(b: &mut Vec<u8>, v: u32) { b.extend_from_slice(&v.to_le_bytes()); }
fn put_i16s(b: &mut Vec<u8>, vs: &[i16]) { put_u32(b, vs.len() as u32); for v in vs { b.extend_from_slice(&v.to_le_bytes()); } }
fn put_string(b: &mut Vec<u8>, s: &str) { put_u32(b, s.chars().count() as u32); for c in s.chars() { b.extend_from_slice(&cid(c).to_le_bytes()); } }
/// a KyTea dictionary = an Aho-Corasick automaton + entries. As in files written by KyTea itself, the output list of a
/// state holds its own entry first (if the state ends an entry: the branch flag) and then the entries that are proper
/// suffixes of the state's string (outputs inherited over the failure links) -- so a state that ends NO entry can still
/// have a non-empty output list. Failure links are written as 0 (the reader ignores them).
fn put_dictionary(b: &mut Vec<u8>, n_dicts: u8, words: &[String], put_entry: &mut dyn FnMut(&mut Vec<u8>, usize)) {
    b.push(n_dicts);
    if words.is_empty() { put_u32(b, 0); return; }
    let mut states: Vec<(std::collections::BTreeMap<char, u32>, Option<u32>, Vec<char>)> = vec![(Default::default(), None, vec![])];
    for (i, w) in words.iter().enumerate() {
        let mut cur = 0usize;
        for c in w.chars() {
            let next = states.len() as u32;
            let e = *states[cur].0.entry(c).or_insert(next);
            if e == next { let mut st = states[cur].2.clone(); st.push(c); states.push((Default::default(), None, st)); }
            cur = e as usize;
        }
        states[cur].1 = Some(i as u32);
    }
    put_u32(b, states.len() as u32);
    for (gotos, out, spelled) in &states {
        put_u32(b, 0);
        put_u32(b, gotos.len() as u32);
        for (&c, &next) in gotos { b.extend_from_slice(&cid(c).to_le_bytes()); put_u32(b, next); }
        let mut outputs: Vec<u32> = out.iter().copied().collect();
        for k in 1..spelled.len() {
            let suffix: String = spelled[k..].iter().collect();
            if let Some(j) = words.iter().position(|w| *w == suffix) { outputs.push(j as u32); }
        }
        put_u32(b, outputs.len() as u32);
        for o in &outputs { put_u32(b, *o); }
        b.push(out.is_some() as u8);
    }
    put_u32(b, words.len() as u32);
    for i in 0..words.len() { put_entry(b, i); }
}

struct Synth { bytes: Vec<u8>, want: ModelData }

fn synth(seed: u64) -> Synth {
    let mut r = crate::gen::Rng(seed ^ 0xc17);
    let (cw, tw) = (1 + r.below(3) as u8, 1 + r.below(3) as u8);
    let dict_n = 1 + r.below(4) as u8;
    // 0..8 dictionaries (the membership mask is one byte); the larger counts less often
    let n_dicts = if r.below(4) == 0 { 4 + r.below(5) as u8 } else { r.below(4) as u8 };
    let bias = r.below(201) as i16 - 100;
    let text_chars: Vec<char> = "abcdあい漢ア1x𠀋".chars().collect();
    // every 5th model: the invalid type letter 0x04 of some distributed KyTea models occurs in type n-grams (those n-grams
    // must be dropped by the conversion); every 4th model: dictionary weights near the i16 limits (sums over several
    // dictionaries leave the 16-bit range)
    let type_letters: Vec<char> = if seed % 5 == 2 { vec!['K', 'T', 'H', 'R', 'D', 'O', '\u{4}'] } else { vec!['K', 'T', 'H', 'R', 'D', 'O'] };
    let big = seed % 4 == 1;
    let distinct = |r: &mut crate::gen::Rng, alpha: &[char], max_len: usize, count: usize| -> Vec<String> {
        let mut v: Vec<String> = vec![];
        for _ in 0..count * 4 {
            if v.len() == count { break; }
            let l = 1 + r.below(max_len);
            let w: String = (0..l).map(|_| alpha[r.below(alpha.len())]).collect();
            if !v.contains(&w) { v.push(w); }
        }
        v
    };
    let k1 = 1 + r.below(5);
    let cgrams = distinct(&mut r, &text_chars, (2 * cw as usize).min(3), k1);
    let k2 = 1 + r.below(4);
    let tgrams = distinct(&mut r, &type_letters, (2 * tw as usize).min(3), k2);
    let k3 = 1 + r.below(5);
    let words = if n_dicts == 0 { vec![] } else { distinct(&mut r, &text_chars, 6, k3) };
    let masks: Vec<u8> = words.iter().map(|_| r.below(1 << n_dicts) as u8).collect();
    let cweights: Vec<Vec<i16>> = cgrams.iter().map(|g| (0..2 * cw as usize + 1 - g.chars().count()).map(|_| r.below(201) as i16 - 100).collect()).collect();
    let tweights: Vec<Vec<i16>> = tgrams.iter().map(|g| (0..2 * tw as usize + 1 - g.chars().count()).map(|_| r.below(201) as i16 - 100).collect()).collect();
    let dict_vec: Vec<i16> = (0..3 * dict_n as usize * n_dicts as usize).map(|_| if big { (r.below(65001) as i32 - 32500) as i16 } else { r.below(201) as i16 - 100 }).collect();

    let mut b = vec![];
    b.extend_from_slice(b"KyTea 0.4.0 B utf8\n");
    // every 3rd model carries tag slots (the converter ignores them, but the reader has to walk over them: global tag
    // lists and global tag models interleaved per slot, per-entry tag lists, per-entry tag models)
    let n_tags: u32 = if seed % 3 == 1 { 1 + r.below(3) as u32 } else { 0 };
    b.push(1); b.push(if n_tags > 0 { 1 } else { 0 }); put_u32(&mut b, n_tags);
    b.push(cw); b.push(3); b.push(tw); b.push(3); b.push(dict_n); b.push(1);
    b.extend_from_slice(&0.1f64.to_le_bytes()); b.push(1);
    b.extend_from_slice(CHAR_MAP.as_bytes()); b.push(0);
    put_u32(&mut b, 2); b.push(1);
    b.extend_from_slice(&1i32.to_le_bytes()); b.extend_from_slice(&(-1i32).to_le_bytes());
    b.push(1); b.extend_from_slice(&1.0f64.to_le_bytes()); b.push(1);
    put_dictionary(&mut b, 0, &cgrams, &mut |b, i| put_i16s(b, &cweights[i]));
    put_dictionary(&mut b, 0, &tgrams, &mut |b, i| put_i16s(b, &tweights[i]));
    put_dictionary(&mut b, 0, &[], &mut |_, _| ());
    put_i16s(&mut b, &dict_vec);
    put_i16s(&mut b, &[bias]);
    put_i16s(&mut b, &[]);
    put_i16s(&mut b, &[]);
    // a small linear model without feature lookup (n_classes, solver, labels, bias flag, multiplier, lookup inactive), or none
    let put_tag_model = |b: &mut Vec<u8>, present: bool| {
        if present {
            put_u32(b, 2); b.push(1);
            b.extend_from_slice(&1i32.to_le_bytes()); b.extend_from_slice(&2i32.to_le_bytes());
            b.push(1); b.extend_from_slice(&0.5f64.to_le_bytes()); b.push(0);
        } else {
            put_u32(b, 0);
        }
    };
    // global tags and global models, slot by slot; slot k has k+1 tags and a model iff k is odd
    for k in 0..n_tags as usize {
        put_u32(&mut b, k as u32 + 1);
        for j in 0..=k { put_string(&mut b, ["a", "ab", "あ", "漢x"][(j + k) % 4]); }
        put_tag_model(&mut b, k % 2 == 1);
    }
    put_dictionary(&mut b, n_dicts, &words, &mut |b, i| {
        put_string(b, &words[i]);
        for k in 0..n_tags as usize {
            let size = (i + k) % 3;
            put_u32(b, size as u32);
            for j in 0..size { put_string(b, ["b", "cd", "い"][(j + i) % 3]); b.push((j as u8) & 1); }
        }
        b.push(masks[i]);
        for k in 0..n_tags as usize { put_tag_model(b, (i + k) % 2 == 0); }
    });
    put_dictionary(&mut b, 0, &[], &mut |_, _| ());

    // what the statement says the converted model contains
    let tcode = |c: char| -> u8 { match c { 'D' => 1, 'R' => 2, 'H' => 3, 'T' => 4, 'K' => 5, _ => 6 } };
    let want = ModelData {
        char_ngram_model: crate::gen::NgramModel(cgrams.iter().zip(&cweights).map(|(g, w)| crate::gen::NgramData { ngram: g.clone(), weights: w.iter().map(|x| *x as i32).collect() }).collect()),
        type_ngram_model: crate::gen::NgramModel(tgrams.iter().zip(&tweights).filter(|(g, _)| !g.contains('\u{4}')).map(|(g, w)| crate::gen::NgramData { ngram: g.chars().map(tcode).collect(), weights: w.iter().map(|x| *x as i32).collect() }).collect()),
        dict_model: crate::gen::DictModel(words.iter().zip(&masks).map(|(w, m)| {
            let n = w.chars().count();
            let bucket = n.min(dict_n as usize) - 1;
            let (mut l, mut i, mut rr) = (0i32, 0i32, 0i32);
            for j in 0..n_dicts as usize {
                if (m >> j) & 1 == 1 {
                    let o = 3 * dict_n as usize * j + 3 * bucket;
                    l += dict_vec[o] as i32; i += dict_vec[o + 1] as i32; rr += dict_vec[o + 2] as i32;
                }
            }
            let mut ws = vec![i; n + 1];
            ws[0] = l; ws[n] = rr;
            crate::gen::WordWeightRecord { word: w.clone(), weights: ws, comment: String::new() }
        }).collect()),
        bias: bias as i32, char_window_size: cw, type_window_size: tw, tag_models: vec![],
    };
    Synth { bytes: b, want }
}

fn check_synth(seed: u64) -> Option<String> {
    let arg = format!("synth:{}", seed);
    crate::mark(&arg);
    let r = std::panic::catch_unwind(move || {
        let sy = synth(seed);
        let km = match KyteaModel::read(sy.bytes.as_slice()) { Ok(m) => m, Err(e) => return Some(format!("synthetic model is rejected: {}", e)) };
        let model = match Model::try_from(km) { Ok(m) => m, Err(e) => return Some(format!("conversion of the synthetic model fails: {}", e)) };
        let out = match model.to_vec() { Ok(b) => b, Err(e) => return Some(format!("does not serialise: {}", e)) };
        let md = match ModelData::from_bytes(&out) { Some(m) => m, None => return Some("converted model bytes do not decode".into()) };
        let key_c = |m: &ModelData| { let mut v: Vec<(String, Vec<i32>)> = m.char_ngram_model.0.iter().map(|d| (d.ngram.clone(), d.weights.clone())).collect(); v.sort(); v };
        let key_t = |m: &ModelData| { let mut v: Vec<(Vec<u8>, Vec<i32>)> = m.type_ngram_model.0.iter().map(|d| (d.ngram.clone(), d.weights.clone())).collect(); v.sort(); v };
        let key_d = |m: &ModelData| { let mut v: Vec<(String, Vec<i32>)> = m.dict_model.0.iter().map(|d| (d.word.clone(), d.weights.clone())).collect(); v.sort(); v };
        if key_c(&md) != key_c(&sy.want) { return Some(format!("character n-grams: file says {:?}, converted model has {:?}", key_c(&sy.want), key_c(&md))); }
        if key_t(&md) != key_t(&sy.want) { return Some(format!("type n-grams: file says {:?}, converted model has {:?}", key_t(&sy.want), key_t(&md))); }
        if key_d(&md) != key_d(&sy.want) { return Some(format!("dictionary: file says {:?}, converted model has {:?}", key_d(&sy.want), key_d(&md))); }
        if (md.bias, md.char_window_size, md.type_window_size) != (sy.want.bias, sy.want.char_window_size, sy.want.type_window_size) {
            return Some(format!("bias / windows: file says {:?}, converted model has {:?}", (sy.want.bias, sy.want.char_window_size, sy.want.type_window_size), (md.bias, md.char_window_size, md.type_window_size)));
        }
        // it segments every text as those weights dictate
        let (m, _) = match Model::read_slice(&out) { Ok(x) => x, Err(e) => return Some(format!("not re-read: {}", e)) };
        let p = match Predictor::new(m, false) { Ok(p) => p, Err(e) => return Some(format!("Predictor::new rejects it: {}", e)) };
        for text in ["abcdあい漢ア1x", "aab漢漢アア11xあ", "x", "ああああ", "dcba1ア漢いあ", "a𠀋b𠀋𠀋cあ𠀋"] {
            let mut s = Sentence::from_raw(text).unwrap();
            p.predict(&mut s);
            let want = crate::gen::reference_scores(&sy.want, text);
            let got: Vec<i64> = s.boundary_scores().iter().map(|x| *x as i64).collect();
            if want != got { return Some(format!("scores on {:?}: the file's weights dictate {:?}, the converted model gives {:?}", text, want, got)); }
        }
        // truncations of a synthetic file are rejected as well (sampled: every 7th prefix)
        for k in (0..sy.bytes.len()).step_by(7) {
            if KyteaModel::read(&sy.bytes[..k]).is_ok() { return Some(format!("synthetic model truncated to {} of {} bytes is accepted", k, sy.bytes.len())); }
        }
        None
    });
    let r = match r { Ok(r) => r, Err(_) => Some("panic while reading / converting / using a synthetic model".to_string()) };
    r.map(|d| format!("{{\"replay_arg\":{},\"actual\":{}}}", crate::js(&arg), crate::js(&d)))
}

/// number of bytes of the file the reader actually consumes (KyTea writes further sections the converter never reads)
fn consumed() -> usize {
    let bytes = file();
    let mut rdr: &[u8] = bytes.as_slice();
    let _ = KyteaModel::read(&mut rdr);
    bytes.len() - rdr.len()
}

pub fn search() -> Option<String> {
    if let Some(d) = check_full() {
        return Some(d);
    }
    // every truncation inside the part the reader consumes
    let n = consumed();
    println!("STATS {{\"nontrivial\":{},\"rule\":\"the complete file (read, convert, decode, structure, documented segmentation, scores against the brute-force linear model) plus every proper prefix of the {} bytes the reader consumes, plus 300 (3000 thorough) seeded synthetic KyTea models (1-3 windows, 1-4 length buckets, 0-3 dictionaries with membership masks) whose converted content and scores are compared with what the generated file says\"}}", n + 1 + if crate::thorough() { 3000 } else { 300 }, n);
    for k in 0..n {
        if let Some(d) = check_prefix(k) {
            return Some(d);
        }
    }
    let n_synth: u64 = if crate::thorough() { 3000 } else { 300 };
    for seed in 0..n_synth {
        if let Some(d) = check_synth(seed) {
            return Some(d);
        }
    }
    None
}

pub fn replay(input: &str) -> Option<String> {
    if input == "full" {
        return check_full();
    }
    if let Some(seed) = input.strip_prefix("synth:") {
        return check_synth(seed.parse().unwrap());
    }
    check_prefix(input.strip_prefix("trunc:").unwrap().parse().unwrap())
}
