//! C07: read_slice on every prefix of the real model file, on foreign headers, with trailing bytes.
use std::panic::catch_unwind;
use vaporetto::Model;

fn desc(arg: &str, what: &str) -> String {
    format!("{{\"replay_arg\":{},\"what\":{}}}", crate::js(arg), crate::js(what))
}

fn model_bytes() -> Vec<u8> {
    std::fs::read("/repo/resources/model.bin").expect("resources/model.bin")
}

/// arg: "prefix:<n>" | "flip:<i>" | "trail:<k>"
fn check(arg: &str, bytes: &[u8]) -> Option<String> {
    let (kind, n) = arg.split_once(':')?;
    let n: usize = n.parse().ok()?;
    match kind {
        "prefix" => {
            let input = bytes[..n].to_vec();
            match catch_unwind(move || Model::read_slice(&input).is_ok()) {
                Err(_) => Some(desc(arg, &format!("read_slice panics on the {n}-byte prefix of a model file"))),
                Ok(true) if n < bytes.len() => Some(desc(arg, &format!("proper prefix of {n} bytes accepted as a model"))),
                _ => None,
            }
        }
        "flip" => {
            let mut input = bytes.to_vec();
            input[n] ^= 0x20;
            match catch_unwind(move || Model::read_slice(&input).is_ok()) {
                Err(_) => Some(desc(arg, "read_slice panics on a foreign header")),
                Ok(true) => Some(desc(arg, "foreign header accepted")),
                _ => None,
            }
        }
        "trail" => {
            let mut input = bytes.to_vec();
            let trail: Vec<u8> = (0..n).map(|i| (i * 37 + 11) as u8).collect();
            input.extend_from_slice(&trail);
            let r = catch_unwind(move || Model::read_slice(&input).map(|(m, rest)| (m.to_vec().ok(), rest.to_vec())));
            match r {
                Err(_) => Some(desc(arg, "read_slice panics with trailing bytes")),
                Ok(Err(_)) => Some(desc(arg, "model + trailing bytes rejected")),
                Ok(Ok((v, rest))) => {
                    if rest != trail {
                        Some(desc(arg, "remainder is not exactly the trailing bytes"))
                    } else if v.as_deref() != Some(bytes) {
                        Some(desc(arg, "re-serialised model differs from the original bytes"))
                    } else {
                        None
                    }
                }
            }
        }
        // "big:<n>": a model with n dictionary records (and as many character n-grams): whatever to_vec / write produce
        // is read back, from a slice and from a reader, however large the model is
        "big" => {
            let r = catch_unwind(move || -> Option<String> {
                let mut md = crate::gen::ModelData::from_bytes(&model_bytes())?;
                md.dict_model.0 = (0..n).map(|i| crate::gen::WordWeightRecord { word: format!("w{:07}", i), weights: vec![(i % 97) as i32 - 48; 9], comment: String::new() }).collect();
                md.char_ngram_model.0 = (0..n).map(|i| crate::gen::NgramData { ngram: format!("{:06}", i), weights: vec![(i % 89) as i32 - 44; 3] }).collect();
                let big = md.to_bytes();
                let mut input = big.clone();
                input.extend_from_slice(b"tail");
                match Model::read_slice(&input) {
                    Err(e) => return Some(format!("a well-formed model with {} dictionary records and n-grams ({} bytes) is rejected by read_slice: {}", n, big.len(), e)),
                    Ok((m, rest)) => {
                        if rest != b"tail" { return Some("remainder is not exactly the trailing bytes (large model)".into()); }
                        if m.to_vec().ok().as_deref() != Some(&big[..]) { return Some("re-serialised large model differs from the original bytes".into()); }
                    }
                }
                match Model::read(&big[..]) {
                    Err(e) => Some(format!("a well-formed model with {} dictionary records and n-grams is rejected by Model::read: {}", n, e)),
                    Ok(m) => if m.to_vec().ok().as_deref() != Some(&big[..]) { Some("Model::read of a large model does not reproduce its bytes".into()) } else { None },
                }
            });
            match r {
                Err(_) => Some(desc(arg, "panic while reading a large model")),
                Ok(Some(w)) => Some(desc(arg, &w)),
                Ok(None) => None,
            }
        }
        // Model::read through readers with awkward behaviour: "chunk:<k>" = at most k bytes per read call;
        // "fail:<k>" = I/O error after k bytes; "cut:<k>" = stream ends after k bytes
        "chunk" => {
            let b = bytes.to_vec();
            match catch_unwind(move || Model::read(Chunked { data: b, pos: 0, chunk: n.max(1), fail_at: usize::MAX }).map(|m| m.to_vec().ok())) {
                Err(_) => Some(desc(arg, "Model::read panics on a reader that returns short reads")),
                Ok(Err(_)) => Some(desc(arg, &format!("valid model rejected when the reader returns at most {} bytes per call", n.max(1)))),
                Ok(Ok(v)) if v.as_deref() != Some(bytes) => Some(desc(arg, "model read through a short-read reader re-serialises differently")),
                _ => None,
            }
        }
        "fail" | "cut" => {
            let b = if kind == "cut" { bytes[..n].to_vec() } else { bytes.to_vec() };
            let fail_at = if kind == "fail" { n } else { usize::MAX };
            match catch_unwind(move || Model::read(Chunked { data: b, pos: 0, chunk: 7, fail_at }).is_ok()) {
                Err(_) => Some(desc(arg, "Model::read panics on a failing / truncated reader")),
                Ok(true) if n < bytes.len() => Some(desc(arg, "Model::read accepted a stream that failed or ended early")),
                _ => None,
            }
        }
        "wfail" => {
            let (m, _) = Model::read_slice(bytes).ok()?;
            let mut w = FailingWriter { written: 0, fail_at: n };
            match catch_unwind(std::panic::AssertUnwindSafe(|| m.write(&mut w).is_ok())) {
                Err(_) => Some(desc(arg, "Model::write panics on a failing writer")),
                Ok(true) if n < bytes.len() => Some(desc(arg, "Model::write reported success although the writer failed")),
                _ => None,
            }
        }
        _ => None,
    }
}

struct Chunked { data: Vec<u8>, pos: usize, chunk: usize, fail_at: usize }
impl std::io::Read for Chunked {
    fn read(&mut self, buf: &mut [u8]) -> std::io::Result<usize> {
        if self.pos >= self.fail_at { return Err(std::io::Error::new(std::io::ErrorKind::Other, "injected")); }
        let n = buf.len().min(self.chunk).min(self.data.len() - self.pos).min(self.fail_at - self.pos);
        buf[..n].copy_from_slice(&self.data[self.pos..self.pos + n]);
        self.pos += n;
        Ok(n)
    }
}
struct FailingWriter { written: usize, fail_at: usize }
impl std::io::Write for FailingWriter {
    fn write(&mut self, buf: &[u8]) -> std::io::Result<usize> {
        if self.written >= self.fail_at { return Err(std::io::Error::new(std::io::ErrorKind::Other, "injected")); }
        let n = buf.len().min(self.fail_at - self.written).max(1).min(buf.len());
        self.written += n;
        Ok(n)
    }
    fn flush(&mut self) -> std::io::Result<()> { Ok(()) }
}

pub fn search() -> Option<String> {
    let bytes = model_bytes();
    // every truncation point up to 4 KiB, then a sparse sample of the rest (the payload decoder is bincode's)
    let mut points: Vec<usize> = (0..bytes.len().min(4096)).collect();
    let mut p = 4096;
    while p < bytes.len() {
        points.push(p);
        p += 1 + p / 64;
    }
    points.push(bytes.len() - 1);
    for n in points {
        if let Some(d) = check(&format!("prefix:{n}"), &bytes) {
            return Some(d);
        }
    }
    for i in 0..25 {
        if let Some(d) = check(&format!("flip:{i}"), &bytes) {
            return Some(d);
        }
    }
    for k in [0usize, 1, 7, 300] {
        if let Some(d) = check(&format!("trail:{k}"), &bytes) {
            return Some(d);
        }
    }
    for k in [2000usize, if crate::thorough() { 1_500_000 } else { 300_000 }] {
        if let Some(d) = check(&format!("big:{k}"), &bytes) {
            return Some(d);
        }
    }
    for k in [1usize, 2, 3, 5, 24, 25, 26, 64, 100000] {
        if let Some(d) = check(&format!("chunk:{k}"), &bytes) {
            return Some(d);
        }
    }
    for k in 0..bytes.len() {
        for kind in ["fail", "cut", "wfail"] {
            if let Some(d) = check(&format!("{kind}:{k}"), &bytes) {
                return Some(d);
            }
        }
    }
    None
}

pub fn replay(arg: &str) -> Option<String> {
    check(arg, &model_bytes())
}
