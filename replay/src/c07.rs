//! C07: read_slice on every prefix of the real model file, on foreign headers, with trailing bytes.
use std::panic::catch_unwind;
use vaporetto::Model;

fn desc(arg: &str, what: &str) -> String {
    format!("{{\"replay_arg\":{},\"what\":{}}}", crate::js(arg), crate::js(what))
}

fn model_bytes() -> Vec<u8> {
    std::fs::read("/repo/resources/model.bin").expect("resources/model.bin")
}

/// arg: "prefix:<n>" | "flip:<i>" | "trail:<k>"
fn check(arg: &str, bytes: &[u8]) -> Option<String> {
    let (kind, n) = arg.split_once(':')?;
    let n: usize = n.parse().ok()?;
    match kind {
        "prefix" => {
            let input = bytes[..n].to_vec();
            match catch_unwind(move || Model::read_slice(&input).is_ok()) {
                Err(_) => Some(desc(arg, &format!("read_slice panics on the {n}-byte prefix of a model file"))),
                Ok(true) if n < bytes.len() => Some(desc(arg, &format!("proper prefix of {n} bytes accepted as a model"))),
                _ => None,
            }
        }
        "flip" => {
            let mut input = bytes.to_vec();
            input[n] ^= 0x20;
            match catch_unwind(move || Model::read_slice(&input).is_ok()) {
                Err(_) => Some(desc(arg, "read_slice panics on a foreign header")),
                Ok(true) => Some(desc(arg, "foreign header accepted")),
                _ => None,
            }
        }
        "trail" => {
            let mut input = bytes.to_vec();
            let trail: Vec<u8> = (0..n).map(|i| (i * 37 + 11) as u8).collect();
            input.extend_from_slice(&trail);
            let r = catch_unwind(move || Model::read_slice(&input).map(|(m, rest)| (m.to_vec().ok(), rest.to_vec())));
            match r {
                Err(_) => Some(desc(arg, "read_slice panics with trailing bytes")),
                Ok(Err(_)) => Some(desc(arg, "model + trailing bytes rejected")),
                Ok(Ok((v, rest))) => {
                    if rest != trail {
                        Some(desc(arg, "remainder is not exactly the trailing bytes"))
                    } else if v.as_deref() != Some(bytes) {
                        Some(desc(arg, "re-serialised model differs from the original bytes"))
                    } else {
                        None
                    }
                }
            }
        }
        _ => None,
    }
}

pub fn search() -> Option<String> {
    let bytes = model_bytes();
    // every truncation point up to 4 KiB, then a sparse sample of the rest (the payload decoder is bincode's)
    let mut points: Vec<usize> = (0..bytes.len().min(4096)).collect();
    let mut p = 4096;
    while p < bytes.len() {
        points.push(p);
        p += 1 + p / 64;
    }
    points.push(bytes.len() - 1);
    for n in points {
        if let Some(d) = check(&format!("prefix:{n}"), &bytes) {
            return Some(d);
        }
    }
    for i in 0..25 {
        if let Some(d) = check(&format!("flip:{i}"), &bytes) {
            return Some(d);
        }
    }
    for k in [0usize, 1, 7, 300] {
        if let Some(d) = check(&format!("trail:{k}"), &bytes) {
            return Some(d);
        }
    }
    None
}

pub fn replay(arg: &str) -> Option<String> {
    check(arg, &model_bytes())
}
