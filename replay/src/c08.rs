//! C08: histories on ONE sentence object (updates in three formats, predictors A/B with and without
//! tags / score storing, fill_tags, reset_tags, filters, failed updates) followed by
//! update_raw(x); predict; [fill_tags], compared with a fresh sentence.
use crate::gen::{gen_model, gen_text, Rng};
use std::panic::{catch_unwind, AssertUnwindSafe};
use vaporetto::{CharacterType, Model, Predictor, Sentence};
use vaporetto_rules::{sentence_filters::{KyteaWsConstFilter, SplitLinebreaksFilter}, SentenceFilter};

fn desc(arg: &str, what: &str) -> String {
    format!("{{\"replay_arg\":{},\"what\":{}}}", crate::js(arg), crate::js(what))
}

type Obs = (Vec<i32>, Vec<u8>, Vec<Option<String>>, usize, Vec<(usize, usize, String)>, String, String, Vec<Vec<Vec<(String, i32)>>>);

fn observe(s: &Sentence, with_cands: bool) -> Obs {
    let mut tok = String::new();
    s.write_tokenized_text(&mut tok);
    let mut part = String::new();
    s.write_partial_annotation_text(&mut part);
    let cands = if with_cands {
        s.iter_tokens().map(|t| t.tag_candidates().into_iter().map(|c| c.into_iter().map(|(a, b)| (a.to_string(), b)).collect()).collect()).collect()
    } else { vec![] };
    (
        s.boundary_scores().to_vec(),
        s.boundaries().iter().map(|b| *b as u8).collect(),
        s.tags().iter().map(|t| t.as_ref().map(|x| x.to_string())).collect(),
        s.n_tags(),
        s.iter_tokens().map(|t| { let _ = t.tags(); (t.start(), t.end(), t.surface().to_string()) }).collect(),
        tok, part, cands,
    )
}

struct World { preds: Vec<(Predictor, bool, bool)> } // (predictor, predicts tags, stores scores)

fn world(seed: u64) -> World {
    let mut preds = vec![];
    let bytes = std::fs::read("/repo/resources/model.bin").unwrap();
    for (tags, store) in [(true, false), (true, true), (false, false)] {
        let (m, _) = Model::read_slice(&bytes).unwrap();
        let mut p = Predictor::new(m, tags).unwrap();
        if store { p.store_tag_scores(true); }
        preds.push((p, tags, store));
    }
    let mut r = Rng(seed);
    for with_tags in [true, false, true] {
        let md = gen_model(&mut r, with_tags);
        let (m, _) = Model::read_slice(&md.to_bytes()).unwrap();
        let mut p = Predictor::new(m, with_tags).unwrap();
        let store = with_tags && r.below(2) == 0;
        if store { p.store_tag_scores(true); }
        preds.push((p, with_tags, store));
    }
    World { preds }
}

const TEXTS: &[&str] = &["まぁ社長は火星猫だ", "まぁ良いだろう", "a", "火星", "Vaporettoは速い1234", "x\ny"];
const ANN: &[(&str, u8)] = &[("まぁ/副詞/マー 良い/形容詞 だろう", 1), ("ま-ぁ|社-長/名詞/シャチョー|は 火", 2), ("a/x/y/z b", 1), ("", 1), ("a  b", 1), ("a|", 2), ("\\", 1)];

/// ops: a byte string; each op is decoded modulo the available choices
fn run(w: &World, ops: &[u8], final_text: &str, final_pred: usize, fill: u8) -> Option<String> {
    let r = catch_unwind(AssertUnwindSafe(|| -> Option<String> {
        let (p, ptags, store) = &w.preds[final_pred % w.preds.len()];
        let mut used = Sentence::default();
        // fill_tags on a sentence whose current predictor was built with predict_tags = false is a DOCUMENTED panic: not exercised
        let mut can_fill = true;
        for (k, &op) in ops.iter().enumerate() {
            let sel = (op / 8) as usize;
            match op % 8 {
                0 => { let _ = used.update_raw(TEXTS[sel % TEXTS.len()].to_string()); can_fill = true; }
                1 => { let (t, kind) = ANN[sel % ANN.len()]; let _ = if kind == 1 { used.update_tokenized(t) } else { used.update_partial_annotation(t) }; can_fill = true; }
                2 => { let (q, qt, _) = &w.preds[sel % w.preds.len()]; q.predict(&mut used); can_fill = *qt; }
                3 => { if can_fill { used.fill_tags(); } }
                4 => { if used.char_types().len() < 64 { used.reset_tags(sel % 4); } }
                5 => { KyteaWsConstFilter::new(CharacterType::Digit).filter(&mut used); SplitLinebreaksFilter.filter(&mut used); }
                6 => { let _ = used.update_raw(String::new()); can_fill = true; }
                _ => { let _ = used.update_raw(gen_text(&mut Rng(op as u64 + k as u64), 9)); can_fill = true; }
            }
        }
        if used.update_raw(final_text.to_string()).is_err() { return Some("final update_raw failed".into()); }
        p.predict(&mut used);
        let do_fill = fill != 0 && *ptags;
        // fill = 2: every boundary is made a word boundary first, as a filter might (every character is a token then:
        // most of them have no tag model, whatever the token that ended at their position in an earlier use)
        let split_all = |s: &mut Sentence| for b in s.boundaries_mut().iter_mut() { *b = vaporetto::CharacterBoundary::WordBoundary; };
        if fill == 2 { split_all(&mut used); }
        if do_fill { used.fill_tags(); }
        let mut fresh = Sentence::from_raw(final_text.to_string()).unwrap();
        p.predict(&mut fresh);
        if fill == 2 { split_all(&mut fresh); }
        if do_fill { fresh.fill_tags(); }
        let a = observe(&used, do_fill && *store);
        let b = observe(&fresh, do_fill && *store);
        if a != b { Some(format!("reused {:?} != fresh {:?}", a, b)) } else { None }
    }));
    match r { Ok(x) => x, Err(_) => Some("panic".into()) }
}

fn base_seed() -> u64 { std::env::var("VERIF_SEED").ok().and_then(|s| s.parse().ok()).unwrap_or(0) }

fn arg_of(seed: u64, ops: &[u8], ft: usize, fp: usize, fill: u8) -> String {
    format!("{}:{}:{}:{}:{}", seed, ops.iter().map(|b| format!("{:02x}", b)).collect::<String>(), ft, fp, fill)
}

pub fn search() -> Option<String> {
    let seed = base_seed();
    let w = world(seed);
    let mut r = Rng(seed ^ 0xc08);
    // all histories of length <= 2 over a reduced op set, then random longer ones
    let small: Vec<u8> = vec![0, 8, 16, 1, 9, 17, 25, 49, 2, 10, 18, 26, 34, 42, 3, 4, 12, 20, 5, 6];
    let mut hist: Vec<Vec<u8>> = vec![vec![]];
    for &a in &small { hist.push(vec![a]); }
    for &a in &small { for &b in &small { hist.push(vec![a, b]); } }
    for &a in &[0u8, 1, 9] { for &b in &[2u8, 10, 26, 42] { for &c in &small { hist.push(vec![a, b, 3, c]); } } }
    for _ in 0..(if crate::thorough() { 12000 } else { 1500 }) { let n = 3 + r.below(6); hist.push((0..n).map(|_| r.below(256) as u8).collect()); }
    for (i, h) in hist.iter().enumerate() {
        for ft in 0..TEXTS.len() {
            // histories that end in predict + fill_tags (+ one more step) are followed by EVERY predictor, the others by one
            let all = h.len() >= 3 && h[h.len() - 2] == 3 || h.len() == 2 && h[1] == 3;
            let fps: Vec<usize> = if all { (0..w.preds.len()).collect() } else { vec![(i + ft) % w.preds.len()] };
            for fp in fps {
                for fill in [0u8, 1, 2] {
                    crate::mark(&arg_of(seed, h, ft, fp, fill));
                    if let Some(what) = run(&w, h, TEXTS[ft], fp, fill) {
                        return Some(desc(&arg_of(seed, h, ft, fp, fill), &what[..what.len().min(700)]));
                    }
                }
            }
        }
    }
    None
}

pub fn replay(arg: &str) -> Option<String> {
    let p: Vec<&str> = arg.split(':').collect();
    let seed: u64 = p[0].parse().ok()?;
    let ops: Vec<u8> = (0..p[1].len() / 2).map(|i| u8::from_str_radix(&p[1][2 * i..2 * i + 2], 16).unwrap()).collect();
    let w = world(seed);
    run(&w, &ops, TEXTS[p[2].parse::<usize>().ok()?], p[3].parse().ok()?, p[4].parse().ok()?).map(|x| desc(arg, &x[..x.len().min(700)]))
}
