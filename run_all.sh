#!/bin/sh
# run every registered quick check (in parallel), then validate manifest + evidence
cd "$(dirname "$0")"
tier=${1:-quick}
ids=$(python3 -c "import json;print(' '.join(c['property_id'] for c in json.load(open('MANIFEST.json'))['checks']))")
mkdir -p out/logs
for p in $ids; do ( ./check $p --tier $tier > out/logs/$p.log 2>&1; echo "$p rc=$? $(tail -1 out/logs/$p.log)" ) & done
wait
python3-vt vlib/validate.py | tail -1
